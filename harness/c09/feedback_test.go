package c09

import (
	"fmt"
	"runtime"

	"github.com/dapr/kit/events/ratelimiting"
	"sync/atomic"
	"testing"
	"testing/synctest"
	"time"

	"verif/harness/internal/mon"
)

// runFeedback: a consumer that REACTS - it reads slowly (so the limiter's delivery goroutine is parked on
// the channel), and right after it has received a signal it calls Add again from the same goroutine (the
// signal told it to look at its source, and looking produced a new event). The Add therefore arrives while
// the delivery goroutine of the signal just consumed has not even run again. Two shapes make the limiter
// flush that Add at once: a pending-events cap of 1, or an idle limiter (the signal was picked up after its
// quiet window had run out). Whatever the order in which the limiter's goroutines then run: no Add is lost
// - after the last Add a signal follows - and signals never exceed Adds.
func runFeedback(t *testing.T, idx int, rng *mon.RNG) {
	if idx%3 == 2 {
		runPingPong(t, idx, rng)
		return
	}
	c := genCfg(rng)
	shape := []string{"cap=1", "idle"}[idx%2]
	if shape == "cap=1" {
		c.MaxPending = 1
	} else {
		c.MaxPending = 0
	}
	rounds := rng.Range(2, 4)
	fb := rng.Range(1, 3)
	desc := fmt.Sprintf("feedback %s shape=%s rounds=%d feedbackAddsPerRound=%d", c, shape, rounds, fb)
	rec.Begin(idx, desc)
	w := &world{idx: idx, mode: "feedback", c: c}
	w.steps = []string{desc}
	res := mon.Bubble(t, func() {
		w.slowGate = make(chan struct{}, 1024)
		var budget atomic.Int32
		w.onSignal = func(int) {
			if budget.Add(-1) >= 0 {
				rec.Count("feedback.add_right_after_a_late_receive", 1)
				w.add()
			}
		}
		w.start()
		synctest.Wait()
		for r := 0; r < rounds && !w.viol; r++ {
			// an Add on an idle limiter: signalled at once, but the consumer is not reading - the delivery
			// goroutine parks on the channel
			w.step("add")
			w.add()
			synctest.Wait()
			if shape == "idle" {
				w.step("sleep past the quiet window")
				time.Sleep(2*c.Max + 1)
				synctest.Wait()
			}
			// now the consumer reads, and reacts to what it reads
			w.step("consumer reads and reacts")
			budget.Store(int32(fb))
			for i := 0; i < 16; i++ {
				w.slowGate <- struct{}{}
			}
			synctest.Wait()
			time.Sleep(3*c.Max + 1)
			synctest.Wait()
			// drain the tokens that were not used, so that the next round starts with a consumer that is not reading
			for {
				select {
				case <-w.slowGate:
					continue
				default:
				}
				break
			}
			w.drained = true
			w.invariants(false)
		}
		if w.viol {
			w.unstick()
			w.rl.Close()
			return
		}
		if cand := w.shutdown("close"); cand != "" {
			reportShutdownWedge(w, "feedback-shutdown", cand)
			w.unstick()
		}
	})
	finish(idx, w, res, true)
}

// runPingPong: a PROMPT consumer (already waiting in its receive) that answers every signal with exactly
// one Add, on a limiter with a pending-events cap of 1. "Every later Add is followed by a signal ... as
// soon as the pending-events cap is reached": each of these Adds reaches the cap by itself, so the whole
// chain of n answers completes without any virtual time passing - at the first quiescent point after the
// opening Add, 1+n signals have been received for 1+n Adds. An Add whose wake-up is dropped shows as a
// chain that stops until the quiet window runs out. Half of the cases run on one P, where the order in
// which the limiter's helper goroutines get to run is the run queue's.
func runPingPong(t *testing.T, idx int, rng *mon.RNG) {
	c := genCfg(rng)
	c.MaxPending = 1
	n := rng.Range(5, 40)
	oneP := (idx/3)%2 == 0
	// parked: the opening Adds are made while the run loop is busy (stopped at the top of its loop), so
	// their wake-up helpers are parked on the input channel when the loop gets to them
	parked := (idx/6)%2 == 0
	placed := 1 + (idx/12)%2
	desc := fmt.Sprintf("feedback pingpong %s answers=%d oneP=%v openingAddsWhileLoopBusy=%v(%d)", c, n, oneP, parked, placed)
	rec.Begin(idx, desc)
	w := &world{idx: idx, mode: "pingpong", c: c}
	w.steps = []string{desc}
	if oneP {
		defer runtime.GOMAXPROCS(runtime.GOMAXPROCS(1))
	}
	res := mon.Bubble(t, func() {
		var budget atomic.Int32
		w.onSignal = func(int) {
			if budget.Add(-1) >= 0 {
				w.add()
			}
		}
		h := w.hook
		ratelimiting.VerifHook.Store(&h)
		defer ratelimiting.VerifHook.Store(nil)
		w.start()
		synctest.Wait()
		for round := 0; round < 3 && !w.viol; round++ {
			if parked {
				// one Add makes the loop go round; it stops at the top of the next iteration
				w.mu.Lock()
				w.armHook, w.armN = "loop.top", 1
				w.mu.Unlock()
				w.step("add (makes the loop go round)")
				w.add()
				synctest.Wait()
				if !w.parked.Load() {
					rec.Inconclusive(idx, "pingpong: the run loop did not reach loop.top", desc)
					w.rl.Close()
					return
				}
			}
			budget.Store(int32(n))
			t0 := time.Now()
			before := len(w.sigsSnapshot())
			w.step("add")
			w.add()
			if parked {
				for i := 1; i < placed; i++ {
					w.add()
				}
				synctest.Wait()
				rec.Count("pingpong.opening_adds_while_loop_busy", 1)
				w.step("resume")
				w.parked.Store(false)
				w.resume <- struct{}{}
			}
			synctest.Wait()
			got := len(w.sigsSnapshot()) - before
			if time.Since(t0) != 0 {
				w.violation("pingpong/harness-time-moved", "virtual time moved during a quiescence wait")
				return
			}
			if got != 1+n {
				w.mu.Lock()
				adds := len(w.adds)
				w.mu.Unlock()
				w.violation("cap-reached-not-signalled-at-once/pingpong", fmt.Sprintf("cap=1, prompt consumer answering each signal with one Add: after the opening Add the chain should run through %d answers at the same instant; at quiescence %d signals were received (%d Adds made so far in total) - an Add that reached the cap is waiting for the quiet window to end", n, got, adds))
				return
			}
			rec.Count("pingpong.chains_completed_in_one_instant", 1)
			// let the window run out so that the next round starts idle
			time.Sleep(3*c.Max + 1)
			synctest.Wait()
			w.drained = true
			w.invariants(false)
		}
		if w.viol {
			w.unstick()
			w.rl.Close()
			return
		}
		if cand := w.shutdown("close"); cand != "" {
			reportShutdownWedge(w, "pingpong-shutdown", cand)
			w.unstick()
		}
	})
	finish(idx, w, res, true)
}
