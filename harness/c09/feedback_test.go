package c09

import (
	"fmt"
	"sync/atomic"
	"testing"
	"testing/synctest"
	"time"

	"verif/harness/internal/mon"
)

// runFeedback: a consumer that REACTS - it reads slowly (so the limiter's delivery goroutine is parked on
// the channel), and right after it has received a signal it calls Add again from the same goroutine (the
// signal told it to look at its source, and looking produced a new event). The Add therefore arrives while
// the delivery goroutine of the signal just consumed has not even run again. Two shapes make the limiter
// flush that Add at once: a pending-events cap of 1, or an idle limiter (the signal was picked up after its
// quiet window had run out). Whatever the order in which the limiter's goroutines then run: no Add is lost
// - after the last Add a signal follows - and signals never exceed Adds.
func runFeedback(t *testing.T, idx int, rng *mon.RNG) {
	c := genCfg(rng)
	shape := []string{"cap=1", "idle"}[idx%2]
	if shape == "cap=1" {
		c.MaxPending = 1
	} else {
		c.MaxPending = 0
	}
	rounds := rng.Range(2, 4)
	fb := rng.Range(1, 3)
	desc := fmt.Sprintf("feedback %s shape=%s rounds=%d feedbackAddsPerRound=%d", c, shape, rounds, fb)
	rec.Begin(idx, desc)
	w := &world{idx: idx, mode: "feedback", c: c}
	w.steps = []string{desc}
	res := mon.Bubble(t, func() {
		w.slowGate = make(chan struct{}, 1024)
		var budget atomic.Int32
		w.onSignal = func(int) {
			if budget.Add(-1) >= 0 {
				rec.Count("feedback.add_right_after_a_late_receive", 1)
				w.add()
			}
		}
		w.start()
		synctest.Wait()
		for r := 0; r < rounds && !w.viol; r++ {
			// an Add on an idle limiter: signalled at once, but the consumer is not reading - the delivery
			// goroutine parks on the channel
			w.step("add")
			w.add()
			synctest.Wait()
			if shape == "idle" {
				w.step("sleep past the quiet window")
				time.Sleep(2*c.Max + 1)
				synctest.Wait()
			}
			// now the consumer reads, and reacts to what it reads
			w.step("consumer reads and reacts")
			budget.Store(int32(fb))
			for i := 0; i < 16; i++ {
				w.slowGate <- struct{}{}
			}
			synctest.Wait()
			time.Sleep(3*c.Max + 1)
			synctest.Wait()
			// drain the tokens that were not used, so that the next round starts with a consumer that is not reading
			for {
				select {
				case <-w.slowGate:
					continue
				default:
				}
				break
			}
			w.drained = true
			w.invariants(false)
		}
		if w.viol {
			w.unstick()
			w.rl.Close()
			return
		}
		if cand := w.shutdown("close"); cand != "" {
			reportShutdownWedge(w, "feedback-shutdown", cand)
			w.unstick()
		}
	})
	finish(idx, w, res, true)
}
