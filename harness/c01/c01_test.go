// Package c01 monitors property C01 (enc/v1: Decrypt inverts Encrypt and the
// ciphertext follows the published dapr.io/enc/v1 format).
//
// Three independent oracles judge every case (DESIGN.md section 5, C01):
//  1. a structural monitor over the real ciphertext bytes,
//  2. the reference implementation internal/refenc (written from README.md
//     only), in both directions: refenc decrypts what kit encrypted and kit
//     decrypts what refenc encrypted,
//  3. kit's own round trip under every source-reader and consumer style.
//
// A callback monitor checks what the wrap / unwrap functions receive.
package c01

import (
	"bytes"
	"crypto/aes"
	"crypto/rand"
	"crypto/rsa"
	"crypto/sha256"
	"crypto/x509"
	"encoding/base64"
	"encoding/json"
	"encoding/pem"
	"errors"
	"fmt"
	"io"
	"os"
	"path/filepath"
	"runtime"
	"strconv"
	"sync"
	"testing"

	kitcrypto "github.com/dapr/kit/crypto"
	"github.com/dapr/kit/crypto/aeskw"
	enc "github.com/dapr/kit/schemes/enc/v1"

	"verif/harness/internal/mon"
	"verif/harness/internal/refenc"
)

var rec *mon.Rec

// ------------------------------------------------------------------ the vault
//
// Real key-encryption keys and real wrapping, done by kit's own crypto package
// and selected by the *algorithm string the callback receives* - so an
// unresolved alias or a wrong algorithm makes the wrap fail visibly.

var zeroIV = make([]byte, 16)

var (
	rsaOnce sync.Once
	rsaPEM  []byte
)

func rsaKeyPEM() []byte {
	rsaOnce.Do(func() {
		k, err := rsa.GenerateKey(rand.Reader, 2048)
		if err != nil {
			rec.Fatalf("rsa.GenerateKey: %v", err)
		}
		der, err := x509.MarshalPKCS8PrivateKey(k)
		if err != nil {
			rec.Fatalf("MarshalPKCS8PrivateKey: %v", err)
		}
		rsaPEM = pem.EncodeToMemory(&pem.Block{Type: "PRIVATE KEY", Bytes: der})
	})
	return rsaPEM
}

// vault is the key store of one case: every name in names resolves to the same
// key material (an encryption key name and its decryption key name denote the
// same key pair); any other name is unknown.
type vault struct {
	names map[string]bool
	seed  [32]byte
	// other: further names present in the store at the same time, each with its OWN key (look-alikes of the
	// case's names: trimmed, padded, case-folded, normalised ... spellings). The store selects strictly by the
	// byte-exact name it is asked for, so a caller that alters a name gets another key or "not found".
	other map[string][32]byte
}

// seedFor returns the key material stored under exactly this name.
func (v *vault) seedFor(name string) ([32]byte, bool) {
	if v.names[name] {
		return v.seed, true
	}
	s, ok := v.other[name]
	return s, ok
}

// addLookAlike stores another key under name (unless name is one of the case's own names).
func (v *vault) addLookAlike(name string) {
	if v.names[name] {
		return
	}
	if v.other == nil {
		v.other = map[string][32]byte{}
	}
	v.other[name] = sha256.Sum256(append([]byte("c01-look-alike/"), name...))
}

func newVault(label string, names ...string) *vault {
	v := &vault{names: map[string]bool{}, seed: sha256.Sum256([]byte("c01-kek/" + label))}
	for _, n := range names {
		v.names[n] = true
	}
	return v
}

func symSize(alg string) int {
	switch alg {
	case "A128CBC-NOPAD":
		return 16
	case "A192CBC-NOPAD":
		return 24
	case "A256KW", "A256CBC-NOPAD":
		return 32
	}
	return 0
}

func (v *vault) wrap(fk []byte, alg, name string) ([]byte, error) {
	seed, ok := v.seedFor(name)
	if !ok {
		return nil, fmt.Errorf("vault: no key named %q", name)
	}
	if n := symSize(alg); n > 0 {
		key, err := kitcrypto.ParseKey([]byte(base64.StdEncoding.EncodeToString(seed[:n])), "")
		if err != nil {
			return nil, err
		}
		var iv []byte
		if alg != "A256KW" {
			iv = zeroIV
		}
		ct, _, err := kitcrypto.EncryptSymmetric(fk, alg, key, iv, nil)
		return ct, err
	}
	if alg == "RSA-OAEP-256" {
		key, err := kitcrypto.ParseKey(rsaKeyPEM(), "application/x-pem-file")
		if err != nil {
			return nil, err
		}
		return kitcrypto.EncryptPublicKey(fk, alg, key, nil)
	}
	return nil, fmt.Errorf("vault: algorithm %q is not a dapr.io/enc/v1 key-wrapping algorithm", alg)
}

func (v *vault) unwrap(wfk []byte, alg, name string) ([]byte, error) {
	seed, ok := v.seedFor(name)
	if !ok {
		return nil, fmt.Errorf("vault: no key named %q", name)
	}
	if n := symSize(alg); n > 0 {
		key, err := kitcrypto.ParseKey([]byte(base64.StdEncoding.EncodeToString(seed[:n])), "")
		if err != nil {
			return nil, err
		}
		var iv []byte
		if alg != "A256KW" {
			iv = zeroIV
		}
		return kitcrypto.DecryptSymmetric(wfk, alg, key, iv, nil, nil)
	}
	if alg == "RSA-OAEP-256" {
		key, err := kitcrypto.ParseKey(rsaKeyPEM(), "application/x-pem-file")
		if err != nil {
			return nil, err
		}
		return kitcrypto.DecryptPrivateKey(wfk, alg, key, nil)
	}
	return nil, fmt.Errorf("vault: algorithm %q is not a dapr.io/enc/v1 key-wrapping algorithm", alg)
}

// ------------------------------------------------------------- callback monitor

type wrapCall struct {
	keyLen     int
	alg, name  string
	nonce, tag bool
	out        []byte
	err        error
}

type unwrapCall struct {
	wfk        []byte
	alg, name  string
	nonce, tag bool
	err        error
}

type cbMon struct {
	v       *vault
	wraps   []wrapCall
	unwraps []unwrapCall
	// busy: the key callbacks belong to a key store that itself protects its keys with enc/v1, so every
	// call runs a small independent Encrypt/Decrypt round trip before it answers (the "matching unwrap
	// function" may do anything it likes; the outer stream must not depend on what it does meanwhile)
	busy    bool
	busyErr string
	// owned: CALLBACK-OWNED MEMORY. The key store answers from its own long-lived memory: unwrap returns,
	// for a given wrapped key, always the SAME slice - a sub-slice of a key table with guard
	// bytes and neighbouring keys around it (so the slice also has spare capacity reaching into them) - and
	// wrap returns a slice of a long-lived buffer. After every Encrypt/Decrypt verifyOwned checks that none
	// of that memory changed: a caller's key table is not kit's to write to.
	owned     bool
	table     []byte         // [guard 16][key 32][guard 16][key 32]...[guard 16]
	tableWant []byte         // what the table must look like
	slots     map[string]int // (algorithm, wrapped key) -> offset of the key in table
	wrapBuf   []byte         // long-lived output buffer of wrap
	wrapWant  []byte
	// the argument slices kit handed to the callbacks, kept to look at them later (observed only)
	argKeys []argSlice
	// argMode: CALLBACK-OWNED ARGUMENT. The plaintextKey slice is handed to the wrap callback, which may use
	// it as it likes: argInPlace wraps in place and returns that very slice (possible when the wrapped key is
	// 32 bytes long: the AES-CBC-NOPAD algorithms; otherwise it behaves like argZero), argZero returns a fresh
	// wrapped copy and then zeroes the argument (a careful key store wiping key material), argScribble returns
	// a fresh copy and overwrites the argument with other bytes. The matching unwrap is the ordinary one; the
	// document must decrypt (kit and reference) exactly as in every other case.
	argMode int
}

const (
	argUntouched = iota
	argInPlace
	argZero
	argScribble
)

var argModeNames = []string{"untouched", "wrapped-in-place-and-returned", "zeroed-after-wrapping", "scribbled-after-wrapping"}

// argModeOf: which callback-owned-argument behaviour case idx uses (independent of idx%2 and idx%3).
func argModeOf(idx int) int {
	return []int{argUntouched, argInPlace, argZero, argScribble, argUntouched}[idx%5]
}

type argSlice struct {
	what string
	kept []byte // the slice as received
	was  []byte // its contents at the time of the call
}

const (
	ownedGuard = 16
	ownedSlots = 6
)

func (m *cbMon) initOwned() {
	m.table = bytes.Repeat([]byte{0xA5}, ownedGuard+ownedSlots*(32+ownedGuard))
	// neighbouring keys already in the table
	for i := 0; i < ownedSlots; i++ {
		off := ownedGuard + i*(32+ownedGuard)
		for j := 0; j < 32; j++ {
			m.table[off+j] = byte(0x30 + i*7 + j)
		}
	}
	m.tableWant = append([]byte(nil), m.table...)
	m.slots = map[string]int{}
	m.wrapBuf = bytes.Repeat([]byte{0xC7}, 1024)
	m.wrapWant = append([]byte(nil), m.wrapBuf...)
}

// ownedUnwrap answers from the key table (filling a slot on the first request).
func (m *cbMon) ownedUnwrap(wfk []byte, alg, name string) ([]byte, error) {
	if !m.v.names[name] {
		// not one of the case's names: a look-alike with its own key, or unknown - answered by the store as it is
		return m.v.unwrap(wfk, alg, name)
	}
	// every name of the case denotes the same key, so the table is keyed by (algorithm, wrapped key)
	id := alg + "\x00" + string(wfk)
	if off, ok := m.slots[id]; ok {
		rec.Count("callback.owned.unwrap_answered_from_the_same_slice", 1)
		return m.table[off : off+32], nil
	}
	key, err := m.v.unwrap(wfk, alg, name)
	if err != nil || len(key) != 32 || len(m.slots) >= ownedSlots-2 {
		return key, err
	}
	off := ownedGuard + (1+len(m.slots))*(32+ownedGuard) // slot 0 and the last ones stay "other people's keys"
	copy(m.table[off:], key)
	copy(m.tableWant[off:], key)
	m.slots[id] = off
	return m.table[off : off+32], nil
}

// verifyOwned reports a violation if kit wrote to memory that belongs to the callbacks.
func (m *cbMon) verifyOwned(c *caseCtx, stage string) bool {
	for _, a := range m.argKeys {
		if !bytes.Equal(a.kept, a.was) {
			rec.Count("callback.args."+a.what+"_slice_changed_after_the_call", 1)
			rec.Observe("the " + a.what + " slice passed to a key callback had other contents when looked at after " + stage + " (not judged: it is kit's memory)")
		} else {
			rec.Count("callback.args."+a.what+"_slice_still_intact_later", 1)
		}
	}
	m.argKeys = nil
	if !m.owned {
		return true
	}
	ok := true
	if !bytes.Equal(m.table, m.tableWant) {
		ok = false
		first := firstDiff(m.table, m.tableWant)
		sig := "callback/unwrap/returned-key-neighbours-modified"
		what := "guard bytes / a neighbouring key / the spare capacity of the returned slice"
		for _, off := range m.slots {
			if first >= off && first < off+32 {
				sig, what = "callback/unwrap/returned-key-modified", "the key itself"
			}
		}
		c.viol(sig+"/"+stage, fmt.Sprintf("after %s the key table the unwrap callback answers from has changed at offset %d (%s): now %x, was %x",
			stage, first, what, m.table[first:min(first+8, len(m.table))], m.tableWant[first:min(first+8, len(m.table))]), nil)
		// not repaired (a real key store would not notice either): the rest of the case runs on the damaged
		// table, so the follow-on failures of later decryptions show as well; only new damage is reported again
		copy(m.tableWant, m.table)
	}
	if !bytes.Equal(m.wrapBuf, m.wrapWant) {
		ok = false
		first := firstDiff(m.wrapBuf, m.wrapWant)
		c.viol("callback/wrap/returned-bytes-modified/"+stage, fmt.Sprintf("after %s the long-lived buffer the wrap callback answered from has changed at offset %d", stage, first), nil)
		copy(m.wrapBuf, m.wrapWant)
	}
	if ok {
		rec.Count("callback.owned.memory_verified_intact", 1)
	}
	return ok
}

var busyKey = bytes.Repeat([]byte{0x5a}, 32)

func (m *cbMon) innerRoundTrip(label string) {
	if !m.busy {
		return
	}
	pt := bytes.Repeat([]byte("inner key record "+label+" "), 40)
	wrapFn := func(k []byte, alg, name string, nonce []byte) ([]byte, []byte, error) {
		blk, err := aes.NewCipher(busyKey)
		if err != nil {
			return nil, nil, err
		}
		out, err := aeskw.Wrap(blk, k)
		return out, nil, err
	}
	unwrapFn := func(w []byte, alg, name string, nonce, tag []byte) ([]byte, error) {
		blk, err := aes.NewCipher(busyKey)
		if err != nil {
			return nil, err
		}
		return aeskw.Unwrap(blk, w)
	}
	er, err := callEncrypt(bytes.NewReader(pt), enc.EncryptOptions{WrapKeyFn: wrapFn, Algorithm: enc.KeyAlgorithmAES256KW, KeyName: "inner"})
	if err != nil {
		m.busyErr = "inner Encrypt: " + err.Error()
		return
	}
	ct, err := io.ReadAll(er)
	if err != nil {
		m.busyErr = "inner Encrypt stream: " + err.Error()
		return
	}
	dr, err := callDecrypt(bytes.NewReader(ct), enc.DecryptOptions{UnwrapKeyFn: unwrapFn})
	if err != nil {
		m.busyErr = "inner Decrypt: " + err.Error()
		return
	}
	got, err := io.ReadAll(dr)
	if err != nil || !bytes.Equal(got, pt) {
		m.busyErr = fmt.Sprintf("inner Decrypt stream: err=%v, %d of %d bytes equal=%v", err, len(got), len(pt), bytes.Equal(got, pt))
		return
	}
	rec.Count("callback.inner_round_trips", 1)
}

func (m *cbMon) wrap(plaintextKey []byte, algorithm, keyName string, nonce []byte) ([]byte, []byte, error) {
	m.innerRoundTrip("wrap")
	out, err := m.v.wrap(plaintextKey, algorithm, keyName)
	m.wraps = append(m.wraps, wrapCall{keyLen: len(plaintextKey), alg: algorithm, name: keyName, nonce: nonce != nil, out: append([]byte(nil), out...), err: err})
	if err == nil && m.argMode != argUntouched {
		switch {
		case m.argMode == argInPlace && len(out) == len(plaintextKey):
			copy(plaintextKey, out)
			out = plaintextKey // the very slice that was passed in
			rec.Count("callback.argmode.wrapped-in-place-and-returned.same_slice_returned", 1)
		case m.argMode == argScribble:
			for i := range plaintextKey {
				plaintextKey[i] = byte(0xE1 + 11*i)
			}
		default:
			clear(plaintextKey)
		}
		rec.Count("callback.argmode."+argModeNames[m.argMode], 1)
	}
	m.argKeys = append(m.argKeys, argSlice{"plaintext_key", plaintextKey, append([]byte(nil), plaintextKey...)})
	if m.owned && err == nil && len(out) <= len(m.wrapBuf)-128 && (m.argMode != argInPlace || len(out) != 32) {
		// answer from the long-lived buffer (guard bytes before and after, spare capacity behind)
		copy(m.wrapBuf[64:], out)
		copy(m.wrapWant[64:], out)
		out = m.wrapBuf[64 : 64+len(out)]
	}
	return out, nil, err
}

func (m *cbMon) unwrap(wrappedKey []byte, algorithm, keyName string, nonce, tag []byte) ([]byte, error) {
	m.innerRoundTrip("unwrap")
	var out []byte
	var err error
	if m.owned {
		out, err = m.ownedUnwrap(wrappedKey, algorithm, keyName)
	} else {
		out, err = m.v.unwrap(wrappedKey, algorithm, keyName)
	}
	m.argKeys = append(m.argKeys, argSlice{"wrapped_key", wrappedKey, append([]byte(nil), wrappedKey...)})
	m.unwraps = append(m.unwraps, unwrapCall{wfk: append([]byte(nil), wrappedKey...), alg: algorithm, name: keyName, nonce: nonce != nil, tag: tag != nil, err: err})
	return out, err
}

// ------------------------------------------------------------------ dimensions

var algs = []struct {
	opt      enc.KeyAlgorithm
	resolved string
	id       int
}{
	{enc.KeyAlgorithmAES256KW, "A256KW", 1},
	{enc.KeyAlgorithmAES128CBC, "A128CBC-NOPAD", 2},
	{enc.KeyAlgorithmAES192CBC, "A192CBC-NOPAD", 3},
	{enc.KeyAlgorithmAES256CBC, "A256CBC-NOPAD", 4},
	{enc.KeyAlgorithmRSAOAEP256, "RSA-OAEP-256", 5},
	{enc.KeyAlgorithmAES, "A256KW", 1},       // alias
	{enc.KeyAlgorithmRSA, "RSA-OAEP-256", 5}, // alias
}

var cipherNames = []string{"nil(default)", "AES-GCM", "CHACHA20-POLY1305"}

func cipherID(c int) int {
	if c == 2 {
		return refenc.CipherChaCha
	}
	return refenc.CipherAESGCM
}

const lenRandom = 18

var fixedLens = func() []int {
	l := []int{0, 1, 2, 15, 16, 17}
	for k := 1; k <= 4; k++ {
		l = append(l, k*65536-1, k*65536, k*65536+1)
	}
	return l
}()

func lenClass(n int) string {
	switch {
	case n == 0:
		return "len=0"
	case n < 65535:
		return "len=small"
	case n%65536 == 65535:
		return "len=k*64K-1"
	case n%65536 == 0:
		return "len=k*64K"
	case n%65536 == 1:
		return "len=k*64K+1"
	}
	return "len=multi-segment"
}

const (
	srcAll = iota
	srcOneByte
	srcRandom
	srcZeroReads
	srcEOFWithData
	srcPipe
	nSrc
)

var srcNames = []string{"all-at-once", "1-byte", "random-chunks", "zero-length-reads", "eof-with-last-data", "io.Pipe"}

const (
	consReadAll = iota
	consSmall
	consRandom
	consBig
	nCons
)

var consNames = []string{"io.ReadAll", "small-fixed-buffer", "random-sizes", "big-buffer"}

var nameStyles = [][3]string{
	// KeyName, DecryptionKeyName, override
	{"mykey", "dec-key", "anotherkey"},
	{"vault/enc-key/3", "vault/dec-key/7", "override/9"},
	{"clé \"public\"\n<a&b>\t\\ ключ", "privé 'k'   {\"x\":1}", " spaced name \r\n"},
}

// spec is one case. The dimension vector is what the covering array is built over.
type spec struct {
	Len                 int // index into fixedLens, or lenRandom
	Cipher              int // 0 nil, 1 AES-GCM, 2 ChaCha20-Poly1305
	Alg                 int // index into algs
	DKN, Omit, Override bool
	Names               int
	SrcE, ConsE         int // plaintext reader given to Encrypt / consumer of the ciphertext
	SrcD, ConsD         int // ciphertext reader given to Decrypt / consumer of the plaintext (kit ciphertext)
	SrcR, ConsR         int // the same for the refenc-produced ciphertext
}

var dimSizes = []int{lenRandom + 1, 3, len(algs), 2, 2, 2, len(nameStyles), nSrc, nCons, nSrc, nCons, nSrc, nCons}

func specFromVec(v []int) spec {
	return spec{Len: v[0], Cipher: v[1], Alg: v[2], DKN: v[3] == 1, Omit: v[4] == 1, Override: v[5] == 1, Names: v[6],
		SrcE: v[7], ConsE: v[8], SrcD: v[9], ConsD: v[10], SrcR: v[11], ConsR: v[12]}
}

func (s spec) String() string {
	l := "random"
	if s.Len < lenRandom {
		l = strconv.Itoa(fixedLens[s.Len])
	}
	return fmt.Sprintf("len=%s cipher=%s alg=%s dkn=%v omit=%v override=%v names=%d enc[src=%s cons=%s] dec[src=%s cons=%s] refdec[src=%s cons=%s]",
		l, cipherNames[s.Cipher], algs[s.Alg].opt, s.DKN, s.Omit, s.Override, s.Names,
		srcNames[s.SrcE], consNames[s.ConsE], srcNames[s.SrcD], consNames[s.ConsD], srcNames[s.SrcR], consNames[s.ConsR])
}

// pairwise builds a covering array of strength 2 over dims (greedy, seeded):
// every pair of values of every two dimensions occurs in at least one row.
func pairwise(rng *mon.RNG, dims []int) [][]int {
	type pr struct{ i, a, j, b int }
	unc := map[pr]bool{}
	var order []pr
	for i := 0; i < len(dims); i++ {
		for j := i + 1; j < len(dims); j++ {
			for a := 0; a < dims[i]; a++ {
				for b := 0; b < dims[j]; b++ {
					p := pr{i, a, j, b}
					unc[p] = true
					order = append(order, p)
				}
			}
		}
	}
	gain := func(row []int) int {
		g := 0
		for i := 0; i < len(dims); i++ {
			for j := i + 1; j < len(dims); j++ {
				if unc[pr{i, row[i], j, row[j]}] {
					g++
				}
			}
		}
		return g
	}
	var rows [][]int
	next := 0
	for len(unc) > 0 {
		for !unc[order[next]] {
			next++
		}
		p := order[next]
		var best []int
		bestG := -1
		for try := 0; try < 40; try++ {
			row := make([]int, len(dims))
			for d := range row {
				row[d] = rng.Intn(dims[d])
			}
			row[p.i], row[p.j] = p.a, p.b
			if g := gain(row); g > bestG {
				best, bestG = row, g
			}
		}
		for i := 0; i < len(dims); i++ {
			for j := i + 1; j < len(dims); j++ {
				delete(unc, pr{i, best[i], j, best[j]})
			}
		}
		rows = append(rows, best)
	}
	return rows
}

func plan() (specs []spec, nPairwise, nProduct int) {
	rng := mon.NewRNG("c01-plan", 0)
	for _, v := range pairwise(rng, dimSizes) {
		specs = append(specs, specFromVec(v))
	}
	nPairwise = len(specs)
	randomRow := func() []int {
		v := make([]int, len(dimSizes))
		for d := range v {
			v[d] = rng.Intn(dimSizes[d])
		}
		return v
	}
	if mon.Thorough() {
		// full product of (length <= 65537) x cipher x algorithm x key-name options, reader styles seeded
		for li := 0; li < 9; li++ {
			for c := 0; c < 3; c++ {
				for a := range algs {
					for k := 0; k < 8; k++ {
						v := randomRow()
						v[0], v[1], v[2], v[3], v[4], v[5] = li, c, a, k&1, k>>1&1, k>>2&1
						specs = append(specs, specFromVec(v))
						nProduct++
					}
				}
			}
		}
		// full product of the reader/consumer styles of both sides at the segment-boundary lengths
		for _, li := range []int{0, 1, 6, 7, 8, 10, 11} {
			for a := 0; a < nSrc; a++ {
				for b := 0; b < nCons; b++ {
					for c := 0; c < nSrc; c++ {
						for d := 0; d < nCons; d++ {
							v := randomRow()
							v[0], v[7], v[8], v[9], v[10] = li, a, b, c, d
							specs = append(specs, specFromVec(v))
							nProduct++
						}
					}
				}
			}
		}
	}
	total := mon.Pick(400, 60000)
	for len(specs) < total {
		v := randomRow()
		if rng.Chance(1, 2) {
			v[0] = lenRandom
		}
		specs = append(specs, specFromVec(v))
	}
	return specs, nPairwise, nProduct
}

// ------------------------------------------------------------ readers, consumers

// styleReader is a source reader that obeys the io.Reader contract (never
// more than len(p) bytes, sticky EOF) and chunks its data in a given style.
type styleReader struct {
	data     []byte
	pos      int
	style    int
	rng      *mon.RNG
	maxChunk int
	lastZero bool
	eof      bool
	// observations
	reads, zeroReads, eofWithData int
}

func (s *styleReader) Read(p []byte) (int, error) {
	s.reads++
	if len(p) == 0 {
		return 0, nil
	}
	if s.eof || (s.pos == len(s.data) && (s.style != srcZeroReads || s.lastZero)) {
		s.eof = true
		return 0, io.EOF
	}
	if s.style == srcZeroReads && !s.lastZero && (s.pos == len(s.data) || s.rng.Chance(1, 3)) {
		// a legal (0, nil): before the first chunk, between chunks and before the EOF
		s.lastZero = true
		s.zeroReads++
		return 0, nil
	}
	s.lastZero = false
	n := len(s.data) - s.pos
	switch s.style {
	case srcOneByte:
		n = 1
	case srcRandom, srcZeroReads, srcEOFWithData:
		n = 1 + s.rng.Intn(s.maxChunk)
	}
	if n > len(p) {
		n = len(p)
	}
	if n > len(s.data)-s.pos {
		n = len(s.data) - s.pos
	}
	copy(p, s.data[s.pos:s.pos+n])
	s.pos += n
	if s.style == srcEOFWithData && s.pos == len(s.data) {
		s.eof = true
		s.eofWithData++
		return n, io.EOF
	}
	return n, nil
}

// source returns a reader over data in the given style and a cleanup function.
func source(data []byte, style int, rng *mon.RNG) (io.Reader, *styleReader, func()) {
	if style == srcOneByte && len(data) > 140000 {
		// 1-byte reads only for small inputs (up to two segments); tiny chunks above
		sr := &styleReader{data: data, style: srcRandom, rng: rng, maxChunk: 3}
		return sr, sr, func() {}
	}
	if style == srcPipe {
		pr, pw := io.Pipe()
		maxW := rng.PickInt(7, 1000, 70000, 200000)
		var sizes []int
		for left := len(data); left > 0; {
			n := 1 + rng.Intn(maxW)
			if n > left {
				n = left
			}
			sizes = append(sizes, n)
			left -= n
		}
		go func() {
			pos := 0
			for _, n := range sizes {
				if _, err := pw.Write(data[pos : pos+n]); err != nil {
					return
				}
				pos += n
			}
			pw.Close()
		}()
		return pr, nil, func() { pr.CloseWithError(errors.New("harness: case finished")) }
	}
	sr := &styleReader{data: data, style: style, rng: rng, maxChunk: rng.PickInt(16, 4096, 70000)}
	return sr, sr, func() {}
}

// consume reads r to its end in the given consumer style and returns the
// bytes and the terminal error (io.EOF for a clean end).
func consume(r io.Reader, style int, rng *mon.RNG, expect int) (got []byte, err error, stuck bool) {
	if style == consReadAll {
		b, e := io.ReadAll(r)
		if e == nil {
			e = io.EOF
		}
		return b, e, false
	}
	var buf []byte
	switch style {
	case consSmall:
		if expect <= 70000 {
			buf = make([]byte, 1)
		} else {
			buf = make([]byte, 61)
		}
	case consRandom:
		buf = make([]byte, rng.PickInt(16, 4096, 70000))
	default:
		buf = make([]byte, 70000)
	}
	got = make([]byte, 0, expect)
	empty := 0
	for {
		p := buf
		if style == consRandom {
			p = buf[:1+rng.Intn(len(buf))]
		}
		n, e := r.Read(p)
		if n < 0 || n > len(p) {
			return got, fmt.Errorf("Read returned invalid count %d for a %d-byte buffer", n, len(p)), false
		}
		got = append(got, p[:n]...)
		if e != nil {
			return got, e, false
		}
		if n == 0 {
			if empty++; empty > 1000 {
				return got, nil, true
			}
		} else {
			empty = 0
		}
		if len(got) > expect+(1<<20) {
			return got, errors.New("stream delivers far more than expected"), false
		}
	}
}

// ------------------------------------------------------------------- one case

type caseCtx struct {
	idx   int
	s     spec
	L     int
	names [3]string
	note  string // replaces the spec string in replays (cases outside the covering array)
	// sigSuffix is appended to every violation signature of the case (names a special callback behaviour)
	sigSuffix string
}

// abbr shortens the very long generated key names in replay records (they are bigName(len)).
func abbr(n string) string {
	if len(n) <= 300 {
		return n
	}
	return fmt.Sprintf("%s... = bigName(%d)", n[:40], len(n))
}

func (c *caseCtx) replay(extra map[string]any) map[string]any {
	m := map[string]any{"case": c.s.String(), "plaintext_len": c.L, "plaintext": "mon.NewRNG(\"c01-pt\", idx).Bytes(len)",
		"key_name": abbr(c.names[0]), "decryption_key_name": abbr(c.names[1]), "override": abbr(c.names[2])}
	if c.note != "" {
		m["case"] = c.note
	}
	for k, v := range extra {
		m[k] = v
	}
	return m
}

func (c *caseCtx) viol(sig, msg string, extra map[string]any) {
	if c.sigSuffix != "" {
		sig += c.sigSuffix
		if extra == nil {
			extra = map[string]any{}
		}
		extra["wrap_callback_behaviour"] = c.sigSuffix[1:]
	}
	rec.Violation(c.idx, sig, msg, c.replay(extra))
}

// head returns the (printable) header of a document: everything up to the
// third line feed, at most n bytes.
func head(b []byte, n int) string {
	nl := 0
	for i, c := range b {
		if c == '\n' {
			if nl++; nl == 3 {
				b = b[:i+1]
				break
			}
		}
	}
	if len(b) > n {
		b = b[:n]
	}
	return string(b)
}

// runCase returns false only if the case could not be judged (inconclusive).
func runCase(idx int, s spec) bool {
	names := nameStyles[s.Names]
	return runCaseWith(idx, s, names, newVault(strconv.Itoa(idx), names[0], names[1], names[2]), "")
}

// runCaseWith runs all oracles of one case with explicit key names and key store.
func runCaseWith(idx int, s spec, names [3]string, v *vault, note string) bool {
	rng := mon.NewRNG("c01-case", idx)
	L := 0
	if s.Len == lenRandom {
		L = rng.Range(3, 400<<10)
	} else {
		L = fixedLens[s.Len]
	}
	pt := mon.NewRNG("c01-pt", idx).Bytes(L)
	c := &caseCtx{idx: idx, s: s, L: L, names: names, note: note}
	keyName, decName := c.names[0], c.names[1]
	alg := algs[s.Alg]
	cb := &cbMon{v: v, busy: idx%2 == 1, owned: idx%3 == 0, argMode: argModeOf(idx)}
	if cb.argMode != argUntouched {
		c.sigSuffix = "/wrap-arg=" + argModeNames[cb.argMode]
	}
	if cb.owned {
		cb.initOwned()
		rec.Count("callback.owned.cases", 1)
	}
	defer func() {
		if cb.busyErr != "" {
			c.viol("callback/inner-round-trip", "an independent enc/v1 round trip run inside the key callback failed: "+cb.busyErr, nil)
		}
	}()

	// what the manifest's "k" must be
	manifestName := keyName
	if s.DKN {
		manifestName = decName
	}
	if s.Omit {
		manifestName = ""
	}

	// ---------------- kit.Encrypt
	opts := enc.EncryptOptions{WrapKeyFn: cb.wrap, Algorithm: alg.opt, KeyName: keyName, OmitKeyName: s.Omit}
	if s.DKN {
		opts.DecryptionKeyName = decName
	}
	if s.Cipher == 1 {
		ci := enc.CipherAESGCM
		opts.Cipher = &ci
	} else if s.Cipher == 2 {
		ci := enc.CipherChaCha20Poly1305
		opts.Cipher = &ci
	}
	srcR, sr, cleanup := source(pt, s.SrcE, rng)
	rec.Step("kit.Encrypt")
	er, err := callEncrypt(srcR, opts)
	if err != nil {
		cleanup()
		if len(cb.wraps) > 0 && cb.wraps[0].err != nil {
			c.viol("callback/wrap/rejected-by-vault", fmt.Sprintf("the wrap callback got algorithm %q and key name %q, which the vault cannot serve (expected %q, %q): %v",
				cb.wraps[0].alg, cb.wraps[0].name, alg.resolved, keyName, cb.wraps[0].err), nil)
			return true
		}
		c.viol("encrypt/returned-error", "Encrypt failed on valid options: "+err.Error(), nil)
		return true
	}
	hdrGuess := 400 + 2*len(manifestName)
	ct, terr, stuck := consume(er, s.ConsE, rng, L+16*(L/65536+1)+hdrGuess)
	cleanup()
	observeSource(sr)
	if !cb.verifyOwned(c, "Encrypt") {
		return true
	}
	if stuck || terr != io.EOF {
		c.viol("encrypt/stream-error/"+lenClass(L)+"/src="+srcNames[s.SrcE], fmt.Sprintf("the Encrypt stream did not end in a clean EOF: err=%v stuck=%v after %d bytes", terr, stuck, len(ct)), nil)
		return true
	}

	// ---------------- callback monitor: wrap
	if len(cb.wraps) == 0 {
		c.viol("callback/wrap/not-called", "Encrypt never called WrapKeyFn", nil)
		return true
	}
	for _, w := range cb.wraps {
		switch {
		case w.keyLen != 32:
			c.viol("callback/wrap/file-key-length", fmt.Sprintf("wrap received a %d-byte file key", w.keyLen), nil)
			return true
		case w.alg != alg.resolved:
			c.viol("callback/wrap/algorithm", fmt.Sprintf("wrap received algorithm %q for option %q, expected %q", w.alg, alg.opt, alg.resolved), nil)
			return true
		case w.name != keyName:
			c.viol("callback/wrap/key-name", fmt.Sprintf("wrap received key name %q, expected KeyName %q", w.name, keyName), nil)
			return true
		}
		if w.nonce {
			rec.Observe("wrap callback received a non-nil nonce")
		}
	}
	wfk := cb.wraps[len(cb.wraps)-1].out

	// ---------------- oracle 1: structure
	if sig, msg := structural(ct, L, alg.id, cipherID(s.Cipher), wfk, manifestName); sig != "" {
		c.viol("struct/"+sig, msg, map[string]any{"header": head(ct, 700), "ciphertext_len": len(ct)})
		return true
	}
	rec.Count("struct.ok", 1)

	// ---------------- oracle 2a: the reference implementation decrypts kit's ciphertext
	refUnwrap := func(w []byte, kw int, name string) ([]byte, error) {
		if name == "" {
			name = keyName
		}
		return v.unwrap(w, refenc.KWName(kw), name)
	}
	got, err := refenc.Decrypt(ct, refUnwrap)
	if err != nil {
		c.viol("ref-decrypts-kit/"+refErrClass(err)+"/"+cipherNames[s.Cipher]+"/"+lenClass(L),
			"a spec-conforming reader cannot decrypt kit's ciphertext: "+err.Error(), map[string]any{"header": head(ct, 700), "ciphertext_len": len(ct)})
		return true
	}
	if !bytes.Equal(got, pt) {
		c.viol("ref-decrypts-kit/plaintext-differs/"+cipherNames[s.Cipher]+"/"+lenClass(L), "reference decryption of kit's ciphertext gives other bytes", nil)
		return true
	}
	rec.Count("ref_decrypts_kit.ok", 1)

	// ---------------- oracle 3: kit decrypts kit's ciphertext
	if !kitDecrypt(c, cb, rng, "roundtrip", ct, pt, s.SrcD, s.ConsD, wfk, alg.resolved, manifestName) {
		return true
	}
	rec.Count("roundtrip.ok", 1)

	// ---------------- oracle 2b: kit decrypts the reference implementation's ciphertext
	// the reference writer spells the manifest in one of the ways the format leaves open (member order, string escaping)
	mOrder, mEscape := manifestStyleOf(idx)
	var refWFK []byte
	rct, err := refenc.Encrypt(pt, refenc.EncryptOptions{KeyName: manifestName, KW: alg.id, Cipher: cipherID(s.Cipher), ManifestOrder: mOrder, ManifestEscape: mEscape,
		Wrap: func(fk []byte) ([]byte, error) {
			w, err := v.wrap(fk, alg.resolved, keyName)
			refWFK = w
			return w, err
		}})
	if err != nil {
		rec.Inconclusive(idx, "refenc.Encrypt failed: "+err.Error(), s.String())
		return false
	}
	if !kitDecrypt(c, cb, rng, "kit-decrypts-ref[manifest:order="+refenc.StyleName(mOrder)+",escape="+refenc.StyleName(mEscape)+"]", rct, pt, s.SrcR, s.ConsR, refWFK, alg.resolved, manifestName) {
		return true
	}
	rec.Count("manifest.ordinary_cases.order="+refenc.StyleName(mOrder), 1)
	rec.Count("manifest.ordinary_cases.escape="+refenc.StyleName(mEscape), 1)
	rec.Count("kit_decrypts_ref.ok", 1)

	// ---------------- overlap: the same round trip while other operations share kit's buffer pool
	if L >= 2 && !overlapRoundTrip(c, cb, rng, ct, rct, pt, alg.opt) {
		return true
	}

	// ---------------- source capabilities: once more through a file / pipe / seeker / ... source
	if !capabilityRoundTrip(c, cb, rng, ct, pt, alg.opt) {
		return true
	}

	rec.Count("alg."+string(alg.opt), 1)
	rec.Count("cipher."+cipherNames[s.Cipher], 1)
	rec.Count("length."+lenClass(L), 1)
	if rec.WantSample() && idx%37 == 5 {
		rec.Sample(map[string]any{"case": s.String(), "plaintext_len": L, "ciphertext_len": len(ct), "header": head(ct, 400)})
	}
	return true
}

func observeSource(sr *styleReader) {
	if sr == nil {
		rec.Count("src.pipe_sources", 1)
		return
	}
	rec.Count("src.reads", sr.reads)
	rec.Count("src.zero_length_reads", sr.zeroReads)
	rec.Count("src.eof_with_last_data", sr.eofWithData)
}

func callEncrypt(in io.Reader, o enc.EncryptOptions) (r io.Reader, err error) {
	defer func() {
		if p := recover(); p != nil {
			err = fmt.Errorf("PANIC in Encrypt: %v", p)
		}
	}()
	return enc.Encrypt(in, o)
}

func callDecrypt(in io.Reader, o enc.DecryptOptions) (r io.Reader, err error) {
	defer func() {
		if p := recover(); p != nil {
			err = fmt.Errorf("PANIC in Decrypt: %v", p)
		}
	}()
	return enc.Decrypt(in, o)
}

// kitDecrypt runs kit.Decrypt over doc with the case's key-name options and
// checks bytes, terminal error, the unwrap arguments and the missing-key rule.
func kitDecrypt(c *caseCtx, cb *cbMon, rng *mon.RNG, stage string, doc, pt []byte, srcStyle, consStyle int, wfk []byte, resolvedAlg, manifestName string) bool {
	ok := kitDecryptInner(c, cb, rng, stage, doc, pt, srcStyle, consStyle, wfk, resolvedAlg, manifestName)
	cb.verifyOwned(c, "Decrypt("+stage+")")
	return ok
}

func kitDecryptInner(c *caseCtx, cb *cbMon, rng *mon.RNG, stage string, doc, pt []byte, srcStyle, consStyle int, wfk []byte, resolvedAlg, manifestName string) bool {
	s := c.s
	tagSig := "/" + cipherNames[s.Cipher] + "/" + lenClass(len(pt)) + "/src=" + srcNames[srcStyle] + "/cons=" + consNames[consStyle]
	extra := func() map[string]any {
		return map[string]any{"stage": stage, "header": head(doc, 700), "document_len": len(doc)}
	}
	override := ""
	if s.Override {
		override = c.names[2]
	}
	if manifestName == "" && override == "" {
		// OmitKeyName without an override: the documented ErrDecryptionKeyMissing
		cb.unwraps = nil
		r, _, cleanup := source(doc, srcStyle, rng)
		_, err := callDecrypt(r, enc.DecryptOptions{UnwrapKeyFn: cb.unwrap})
		cleanup()
		if !errors.Is(err, enc.ErrDecryptionKeyMissing) {
			c.viol("keyname/omitted-without-override/"+stage, fmt.Sprintf("Decrypt of a document without key name and without override returned %v, expected ErrDecryptionKeyMissing", err), extra())
			return false
		}
		rec.Count("key_missing.ok", 1)
		if len(cb.unwraps) > 0 {
			rec.Observe("unwrap callback was called although no key name is available")
		}
		// then decrypt it the documented way, naming the key explicitly
		override = c.names[0]
	}
	wantName := override
	if wantName == "" {
		wantName = manifestName
	}
	cb.unwraps = nil
	r, sr, cleanup := source(doc, srcStyle, rng)
	rec.Step("kit.Decrypt " + stage)
	dr, err := callDecrypt(r, enc.DecryptOptions{UnwrapKeyFn: cb.unwrap, KeyName: override})
	if len(cb.unwraps) > 0 {
		for _, u := range cb.unwraps {
			switch {
			case !bytes.Equal(u.wfk, wfk):
				cleanup()
				c.viol("callback/unwrap/wrapped-key/"+stage, fmt.Sprintf("unwrap received %d bytes that are not the wrapped file key returned by wrap (%d bytes)", len(u.wfk), len(wfk)), extra())
				return false
			case u.alg != resolvedAlg:
				cleanup()
				c.viol("callback/unwrap/algorithm/"+stage, fmt.Sprintf("unwrap received algorithm %q, expected %q", u.alg, resolvedAlg), extra())
				return false
			case u.name != wantName:
				cleanup()
				c.viol("callback/unwrap/key-name/"+stage, fmt.Sprintf("unwrap received key name %q, expected %q (override=%q, manifest=%q)", u.name, wantName, override, manifestName), extra())
				return false
			}
			if u.nonce || u.tag {
				rec.Observe("unwrap callback received a non-nil nonce or tag")
			}
		}
	}
	if err != nil {
		cleanup()
		c.viol(stage+"/decrypt-error"+tagSig, "Decrypt rejected a valid document: "+err.Error(), extra())
		return false
	}
	if len(cb.unwraps) == 0 {
		cleanup()
		c.viol("callback/unwrap/not-called/"+stage, "Decrypt succeeded without calling UnwrapKeyFn", extra())
		return false
	}
	got, terr, stuck := consume(dr, consStyle, rng, len(pt))
	cleanup()
	observeSource(sr)
	switch {
	case stuck:
		c.viol(stage+"/stream-stuck"+tagSig, fmt.Sprintf("the Decrypt stream keeps returning (0, nil) after %d of %d bytes", len(got), len(pt)), extra())
	case terr != io.EOF:
		c.viol(stage+"/stream-error"+tagSig, fmt.Sprintf("the Decrypt stream of a valid document ended with %v after %d of %d bytes", terr, len(got), len(pt)), extra())
	case len(got) != len(pt):
		c.viol(stage+"/length-differs"+tagSig, fmt.Sprintf("decrypted %d bytes, the plaintext has %d", len(got), len(pt)), extra())
	case !bytes.Equal(got, pt):
		c.viol(stage+"/bytes-differ"+tagSig, fmt.Sprintf("decrypted bytes differ from the plaintext (first difference at %d)", firstDiff(got, pt)), extra())
	default:
		rec.Count("dec.src."+srcNames[srcStyle], 1)
		rec.Count("dec.cons."+consNames[consStyle], 1)
		return true
	}
	return false
}

// overlapRoundTrip: the Decrypt stream of kit's ciphertext is read to k bytes,
// then a complete Decrypt of the reference implementation's ciphertext and a
// complete Encrypt (checked by the reference implementation) run, then the
// rest of the first stream is read. All three must be exact. No goroutines
// other than kit's own; the order of the reads is fixed.
// failingReader delivers data and then fails (a source that breaks mid-way).
type failingReader struct {
	data []byte
	pos  int
}

func (f *failingReader) Read(p []byte) (int, error) {
	if f.pos >= len(f.data) {
		return 0, errors.New("harness: source broke mid-way")
	}
	n := copy(p, f.data[f.pos:])
	f.pos += n
	return n, nil
}

// provokeFailures drives kit through its FAILURE paths with this case's own
// documents before the nested round trip starts, so that whatever those paths
// leave behind in shared state (the buffer pool) is in place: a tampered copy
// and a copy cut mid-segment decrypted to their errors, a Decrypt stream and an
// Encrypt stream given up by their consumer after a few bytes (closed if they
// can be), an Encrypt whose source breaks mid-way. None of these is judged
// here (refusing tampered documents is C02's subject; unexpected acceptance is
// observed); what follows must still be exact.
func provokeFailures(c *caseCtx, cb *cbMon, rng *mon.RNG, ct, pt []byte, opts enc.DecryptOptions, algOpt enc.KeyAlgorithm, k int) {
	rec.Step("provoke failure paths")
	hdr := 0
	for i, nl := 0, 0; i < len(ct); i++ {
		if ct[i] == '\n' {
			if nl++; nl == 3 {
				hdr = i + 1
				break
			}
		}
	}
	if hdr == 0 || len(ct)-hdr < 17 {
		return
	}
	drain := func(doc []byte, what string) {
		dr, err := callDecrypt(bytes.NewReader(doc), opts)
		if err == nil {
			_, err = io.Copy(io.Discard, dr)
		}
		if err == nil {
			rec.Observe("a " + what + " copy of the case's document was decrypted without an error while provoking failure paths (C02's subject)")
			return
		}
		rec.Count("overlap.provoked."+what, 1)
	}
	// one flipped ciphertext byte in the last segment; the copy cut in the middle of its last segment
	bad := append([]byte(nil), ct...)
	lastLen := (len(ct) - hdr) % 65552
	if lastLen == 0 {
		lastLen = 65552
	}
	bad[len(bad)-lastLen+(lastLen-16)/2] ^= 0x10
	drain(bad, "tampered")
	drain(ct[:len(ct)-lastLen/2-1], "cut-mid-segment")
	// a Decrypt stream given up by its consumer
	if dr, err := callDecrypt(bytes.NewReader(ct), opts); err == nil {
		io.ReadFull(dr, make([]byte, min(k, 5)))
		if cl, ok := dr.(io.Closer); ok {
			cl.Close()
			rec.Count("overlap.provoked.decrypt_stream_abandoned_and_closed", 1)
		}
	}
	wrapFn := func(fk []byte, a, n string, nonce []byte) ([]byte, []byte, error) {
		w, err := cb.v.wrap(fk, a, n)
		return w, nil, err
	}
	eo := enc.EncryptOptions{Algorithm: algOpt, KeyName: c.names[0], WrapKeyFn: wrapFn}
	// an Encrypt stream given up by its consumer
	if er, err := callEncrypt(bytes.NewReader(pt), eo); err == nil {
		io.ReadFull(er, make([]byte, 20))
		if cl, ok := er.(io.Closer); ok {
			cl.Close()
			rec.Count("overlap.provoked.encrypt_stream_abandoned_and_closed", 1)
		}
	}
	// an Encrypt whose source breaks mid-way
	if er, err := callEncrypt(&failingReader{data: pt[:len(pt)/2]}, eo); err == nil {
		if _, err := io.Copy(io.Discard, er); err != nil {
			rec.Count("overlap.provoked.encrypt_source_failed", 1)
		} else {
			rec.Observe("an Encrypt whose source reader failed mid-way ended without an error (observed while provoking failure paths)")
		}
	}
	// kit's goroutines finish their clean-up on their own time: give them the processor a few times
	for i := 0; i < 8; i++ {
		runtime.Gosched()
	}
	rec.Count("overlap.failures_provoked_before_the_nested_round_trip", 1)
}

func overlapRoundTrip(c *caseCtx, cb *cbMon, rng *mon.RNG, ct, rct, pt []byte, algOpt enc.KeyAlgorithm) bool {
	v := cb.v
	defer cb.verifyOwned(c, "overlapped-round-trip")
	keyName := c.names[0]
	unwrap := func(w []byte, a, n string, nonce, tag []byte) ([]byte, error) {
		if cb.owned {
			return cb.ownedUnwrap(w, a, n) // the same stored slices as in the decryptions before
		}
		return v.unwrap(w, a, n)
	}
	opts := enc.DecryptOptions{UnwrapKeyFn: unwrap, KeyName: keyName}
	k := rng.PickInt(1, 10, 65535, 65536+10)
	if k >= len(pt) {
		k = len(pt) / 2
	}
	sig := func(what string) string {
		return "overlap/" + what + "/" + lenClass(len(pt)) + "/" + cipherNames[c.s.Cipher]
	}
	extra := map[string]any{"outer_stream_read_before_the_inner_operations": k}
	provokeFailures(c, cb, rng, ct, pt, opts, algOpt, k)
	rec.Step("overlap round trip")
	dA, err := callDecrypt(bytes.NewReader(ct), opts)
	if err != nil {
		c.viol(sig("outer-decrypt-error"), "Decrypt rejected a valid document: "+err.Error(), extra)
		return false
	}
	first := make([]byte, k)
	if _, err := io.ReadFull(dA, first); err != nil {
		c.viol(sig("outer-stream-error"), fmt.Sprintf("the stream failed within its first %d bytes: %v", k, err), extra)
		return false
	}
	// inner 1: a complete Decrypt of another valid document (same plaintext, other file key)
	dB, err := callDecrypt(bytes.NewReader(rct), opts)
	var gotB []byte
	if err == nil {
		gotB, err = io.ReadAll(dB)
	}
	if err != nil || !bytes.Equal(gotB, pt) {
		c.viol(sig("inner-decrypt"), fmt.Sprintf("a Decrypt run while another stream was half read: err=%v, %d bytes, first difference at %d", err, len(gotB), firstDiff(gotB, pt)), extra)
		return false
	}
	// inner 2: a complete Encrypt, decrypted by the reference implementation
	pt2 := bytes.Repeat([]byte{0x5A, 0xA5, 0x0F}, 25000)
	er, err := callEncrypt(bytes.NewReader(pt2), enc.EncryptOptions{Algorithm: algOpt, KeyName: keyName,
		WrapKeyFn: func(fk []byte, a, n string, nonce []byte) ([]byte, []byte, error) {
			w, err := v.wrap(fk, a, n)
			return w, nil, err
		}})
	var ct2, back []byte
	if err == nil {
		ct2, err = io.ReadAll(er)
	}
	if err == nil {
		back, err = refenc.Decrypt(ct2, func(w []byte, kw int, n string) ([]byte, error) { return v.unwrap(w, refenc.KWName(kw), keyName) })
	}
	if err != nil || !bytes.Equal(back, pt2) {
		c.viol(sig("inner-encrypt"), fmt.Sprintf("an Encrypt run while a Decrypt stream was half read gives a document the reference cannot decrypt to the plaintext: %v", err), extra)
		return false
	}
	rest, err := io.ReadAll(dA)
	got := append(first, rest...)
	switch {
	case err != nil:
		c.viol(sig("outer-stream-error"), fmt.Sprintf("the half-read stream failed after the inner operations: %v (%d of %d bytes)", err, len(got), len(pt)), extra)
	case !bytes.Equal(got, pt):
		c.viol(sig("outer-bytes-differ"), fmt.Sprintf("the half-read stream delivered other bytes after the inner operations (%d bytes, plaintext %d, first difference at %d)", len(got), len(pt), firstDiff(got, pt)), extra)
	default:
		rec.Count("overlap.ok", 1)
		return true
	}
	return false
}

func firstDiff(a, b []byte) int {
	for i := 0; i < len(a) && i < len(b); i++ {
		if a[i] != b[i] {
			return i
		}
	}
	return min(len(a), len(b))
}

func refErrClass(err error) string {
	var se *refenc.SegmentError
	switch {
	case errors.Is(err, refenc.ErrMAC):
		return "header-mac"
	case errors.As(err, &se):
		pos := "first"
		if se.Index > 0 {
			pos = "later"
		}
		if se.Last {
			return "segment-auth/" + pos + "+last"
		}
		return "segment-auth/" + pos + "+nonlast"
	case errors.Is(err, refenc.ErrManifest):
		return "manifest"
	case errors.Is(err, refenc.ErrUnwrap):
		return "unwrap"
	}
	return "format"
}

// structural is oracle 1: the documented layout, checked on the bytes.
func structural(ct []byte, ptLen, kw, cph int, wfk []byte, manifestName string) (sig, msg string) {
	// exactly three line-feed-terminated header lines
	var nl []int
	for i, b := range ct {
		if b == '\n' {
			nl = append(nl, i)
			if len(nl) == 3 {
				break
			}
		}
	}
	if len(nl) < 3 {
		return "header-lines", fmt.Sprintf("only %d line feeds in the whole document", len(nl))
	}
	l1, l2, l3 := ct[:nl[0]], ct[nl[0]+1:nl[1]], ct[nl[1]+1:nl[2]]
	hdr := nl[2] + 1
	if string(l1) != "dapr.io/enc/v1" {
		return "scheme-line", fmt.Sprintf("first line is %q", l1)
	}
	if hdr > 65536 {
		// the published format sets no limit; whether such a document is usable is decided by the decryptions
		rec.Count("struct.header_longer_than_64KiB", 1)
	}
	if !json.Valid(l2) {
		return "manifest/not-json", "second line is not valid JSON"
	}
	var cp bytes.Buffer
	if json.Compact(&cp, l2) != nil || !bytes.Equal(cp.Bytes(), l2) {
		return "manifest/not-compact", "second line is not compact JSON"
	}
	// third line: padded standard base64 of 32 bytes, canonical
	if mac, err := base64.StdEncoding.Strict().DecodeString(string(l3)); err != nil || len(mac) != 32 || len(l3) != 44 {
		return "mac-line", fmt.Sprintf("third line %q is not the padded standard base64 of a 32-byte MAC", l3)
	}
	d, err := refenc.Parse(ct)
	if err != nil {
		return "manifest/" + refErrClass(err), "the document does not parse: " + err.Error()
	}
	for _, f := range d.Manifest.Fields {
		switch f.Key {
		case "k", "kw", "wfk", "cph", "np":
		default:
			return "manifest/unknown-member", fmt.Sprintf("manifest has a member %q", f.Key)
		}
		if (f.Key == "kw" && string(f.Raw) != strconv.Itoa(kw)) || (f.Key == "cph" && string(f.Raw) != strconv.Itoa(cph)) {
			return "manifest/" + f.Key, fmt.Sprintf("%s is written %s, expected the numeric id %d/%d", f.Key, f.Raw, kw, cph)
		}
	}
	m := d.Manifest
	if m.KW != kw {
		return "manifest/kw", fmt.Sprintf("kw=%d, expected %d", m.KW, kw)
	}
	if m.Cipher != cph {
		return "manifest/cph", fmt.Sprintf("cph=%d, expected %d", m.Cipher, cph)
	}
	if !bytes.Equal(m.WFK, wfk) {
		return "manifest/wfk", "wfk is not what the wrap callback returned"
	}
	if manifestName == "" && m.HasKey {
		return "manifest/k-present-but-omitted", fmt.Sprintf("k=%q although OmitKeyName is set", m.Key)
	}
	if manifestName != "" && (!m.HasKey || m.Key != manifestName) {
		return "manifest/k", fmt.Sprintf("k=%q (present=%v), expected %q", m.Key, m.HasKey, manifestName)
	}
	wantSeg := (ptLen + 65535) / 65536
	wantPayload := ptLen + 16*wantSeg
	if len(ct)-hdr != wantPayload {
		if ptLen == 0 {
			return "payload-length/len=0", fmt.Sprintf("an empty message has a %d-byte payload", len(ct)-hdr)
		}
		return "payload-length/" + lenClass(ptLen), fmt.Sprintf("payload is %d bytes for a %d-byte plaintext, expected %d", len(ct)-hdr, ptLen, wantPayload)
	}
	if len(d.Segments) != wantSeg {
		return "segment-count", fmt.Sprintf("%d segments, expected %d", len(d.Segments), wantSeg)
	}
	return "", ""
}

// ------------------------------------------------------------------- testdata

// The files shipped with kit were produced with the identity as key wrapping
// (scheme_test.go: wrapKeyFn returns the plaintext key).
func checkTestdata(idx int) {
	repo := os.Getenv("VERIF_REPO_DIR")
	if repo == "" {
		repo = "/repo"
	}
	want := map[string][]byte{
		"single-segment.enc":             []byte("hello world"),
		"single-segment-no-key-name.enc": []byte("hello world"),
		"multi-segment.enc":              bytes.Repeat([]byte{1, 2, 3, 4, 5, 6, 7, 8, 9, 0}, 12<<10),
		"one-full-segment.enc":           bytes.Repeat([]byte{1, 2, 3, 4, 5, 6, 7, 8}, 8<<10),
		"two-full-segments.enc":          bytes.Repeat([]byte{1, 2, 3, 4, 5, 6, 7, 8}, 16<<10),
		"large-file.enc":                 bytes.Repeat([]byte{1, 2, 3, 4, 5, 6, 7, 8, 9, 0}, 30<<10),
		"empty-message.enc":              {},
	}
	n := 0
	for name, pt := range want {
		doc, err := os.ReadFile(filepath.Join(repo, "schemes/enc/v1/testdata", name))
		if err != nil {
			rec.Inconclusive(idx, "cannot read testdata: "+err.Error(), nil)
			continue
		}
		got, err := refenc.Decrypt(doc, func(w []byte, kw int, name string) ([]byte, error) { return w, nil })
		if err != nil || !bytes.Equal(got, pt) {
			rec.Violation(idx, "ref-decrypts-testdata/"+name, fmt.Sprintf("the reference implementation cannot decrypt kit's published test vector: err=%v", err), map[string]any{"file": name})
			continue
		}
		// and kit itself, through a chunked reader
		rng := mon.NewRNG("c01-testdata", n)
		r, _, cleanup := source(doc, srcRandom, rng)
		dr, err := callDecrypt(r, enc.DecryptOptions{KeyName: "mykey", UnwrapKeyFn: func(w []byte, a, k string, nonce, tag []byte) ([]byte, error) { return w, nil }})
		if err != nil {
			cleanup()
			rec.Violation(idx, "kit-decrypts-testdata/"+name, "Decrypt rejects a published test vector: "+err.Error(), map[string]any{"file": name})
			continue
		}
		b, terr, _ := consume(dr, consRandom, rng, len(pt))
		cleanup()
		if terr != io.EOF || !bytes.Equal(b, pt) {
			rec.Violation(idx, "kit-decrypts-testdata/"+name, fmt.Sprintf("published test vector decrypts to %d bytes, err=%v", len(b), terr), map[string]any{"file": name})
			continue
		}
		n++
		rec.Count("testdata.files_decrypted_by_refenc", 1)
	}
	rec.CaseN(idx, "testdata", true, int64(len(want)))
}

// ----------------------------------------------------------------------- main

func TestCheck(t *testing.T) {
	rec = mon.Open("C01")
	defer rec.Close()
	defer removeScratch()
	specs, nPairwise, nProduct := plan()
	rec.Note("rule", "A case = (plaintext length, cipher option, key-wrap algorithm option, DecryptionKeyName set?, OmitKeyName?, decrypt override?, key-name spelling, "+
		"source-reader style and consumer style for Encrypt, for Decrypt of kit's ciphertext, for Decrypt of the reference implementation's ciphertext). "+
		"Lengths {0,1,2,15,16,17,k*65536-1,k*65536,k*65536+1 (k=1..4), seeded random <= 400 KiB}; ciphers {nil, AES-GCM, ChaCha20-Poly1305}; the five algorithm ids and the aliases AES, RSA, each wrapped for real by kit's crypto package (AES-KW, AES-CBC no-pad 128/192/256, RSA-OAEP-256 2048 bit); "+
		"source styles {all-at-once, 1-byte, seeded random chunks, zero-length reads interleaved, last data together with EOF, io.Pipe writer with random write sizes}; consumers {io.ReadAll, 1-byte/61-byte buffer, random sizes, 70000-byte buffer}. "+
		"The first cases form a seeded covering array of strength 2 over these 13 dimensions (every pair of values of every two dimensions), the thorough tier adds the full product length<=65537 x cipher x algorithm x key-name options and the full product of the four reader/consumer styles at seven boundary lengths, the rest are seeded random vectors. "+
		"Each case is judged by: the structural monitor on the ciphertext bytes, refenc.Decrypt(kit.Encrypt(pt))==pt, kit.Decrypt(kit.Encrypt(pt))==pt with clean EOF, kit.Decrypt(refenc.Encrypt(pt))==pt, the wrap/unwrap argument monitor and the ErrDecryptionKeyMissing rule; in every odd-numbered case the key callbacks are busy: each call runs an independent small enc/v1 Encrypt/Decrypt round trip before answering (a key store that protects its own records with the scheme), which must neither fail nor disturb the outer stream; in every third case the callbacks answer from CALLBACK-OWNED MEMORY (unwrap returns the same slice of a guarded key table for a given key name and wrapped key - later decryptions of the case get that very slice again -, wrap returns a slice of a long-lived buffer) and after every Encrypt/Decrypt that memory, its guard bytes, neighbouring keys and spare capacity must be unchanged; the argument slices kit passes to the callbacks are looked at again afterwards (counted, not judged); in three of every five cases the wrap callback treats its plaintextKey ARGUMENT as its own (wraps in place and returns that very slice when the wrapping is 32 bytes long, or returns a fresh copy and then zeroes, or scribbles over, the argument) - the document must decrypt with kit and the reference all the same. distinct = distinct dimension vectors; non-trivial = every case (a real encryption and three real decryptions); case 0 additionally decrypts kit's seven testdata files with refenc. Every case with at least 2 plaintext bytes is followed by an overlapped round trip: kit's ciphertext is opened with Decrypt and read to k bytes (k in {1,10,65535,65546}, or half the plaintext), then a complete Decrypt of the reference ciphertext and a complete Encrypt (checked by refenc) run, then the rest is read; all three must be exact. KEY NAME SHAPES: the key store selects by the byte-exact name it receives (unknown name = error) and every unwrap call's name is compared with the name the document was encrypted under; a dedicated family uses as KeyName, as DecryptionKeyName and as decrypt override (with OmitKeyName) names with leading/trailing/inner white space (space, tab, LF, CR, NBSP, U+2003), white-space-only names, NUL and control characters, names that look like JSON / base64 / escapes, case-only twins and Unicode normalisation twins, while the store holds ~70 look-alike names (trimmed, padded, case-folded, normalised, unescaped, quoted spellings) each with a DIFFERENT key - every such case runs all oracles of an ordinary case (both reference directions, overlap, source capabilities). WRAPPED KEY SIZE: stand-in key stores whose wrap returns an envelope of 0,1,31,32,33,40,256,511,512,513,576,640,1024,4096,16384 bytes (tag, key, padding; the matching unwrap extracts the key), both ciphers, both directions (kit Encrypt -> refenc and kit Decrypt; refenc Encrypt -> kit Decrypt); a 48000-byte envelope combined with a key name sized so that the header is exactly 65533..65538, 65552, 65553 bytes (Encrypt may refuse - counted - but what it writes must decrypt; reference documents with a header over 64 KiB are looked at, not judged); thorough adds more lengths and a real RSA-OAEP-256 wrap with a 4608-bit key generated once per process. The README sets no limit on the size of the RSA key or of the wrapped key; an EMPTY wrapped key is outside what the format promises and only observed. MANIFEST ENCODINGS: the format fixes the manifest as compact JSON (no white space - not varied) with padded standard base64 values (not varied) and says the MAC is over the exact bytes because encoders differ; the reference writer therefore spells the manifest of its documents with every member order (struct order, alphabetical, reversed, k last) and string escaping (encoding/json's, minimal with raw <>& U+2028 and non-ASCII, solidus as \\/ also in the base64 strings, \\uXXXX for all non-ASCII with surrogate pairs, \\u00xx for some ASCII characters, every character escaped) - rotating over the ordinary cases' reference documents and, in a dedicated family, all order x escaping x cipher combinations with a key name containing / < > & quotes, reverse solidus, control characters, U+2028/U+2029, non-ASCII and astral characters (and with no key name); kit must decrypt every one. Every case ends with a SOURCE-CAPABILITIES round trip: its ciphertext is decrypted once more and its plaintext encrypted once more (checked by refenc), each read from a source that is more than an io.Reader, rotating through: the read end of an os.Pipe (an *os.File whose Seek/ReadAt fail at run time), a regular file at offset 0, a regular file with the document embedded at a non-zero offset, an io.SectionReader with a non-zero base, a wrapper whose Seek always fails, a wrapper that forwards Seek to a bytes.Reader and counts the calls (observed), a bufio layer with a Seek that moves the file underneath, a plain bytes.Reader (Seek/ReadAt/WriteTo/ReadByte), and ReadAt+WriteTo+ReadByte without Seek; temp files live under $VERIF_SCRATCH and are removed right after use. Before that nested round trip kit's FAILURE paths are provoked with the case's own documents (a copy with a flipped ciphertext byte and a copy cut mid-segment decrypted to their errors, a Decrypt stream and an Encrypt stream abandoned and closed by the consumer, an Encrypt whose source breaks mid-way), so that what those paths leave in shared state is present. "+
		"Long key names (after the huge cases): KeyName or DecryptionKeyName sized so that the three-line header is exactly N bytes for every N in 65534..65556 (every off-by-one around 65536 and 65552), and ordinary 10 KiB / 60 KiB names, x both ciphers x {A256KW, A128CBC-NOPAD, RSA-OAEP-256} (all seven in thorough), some with a long decrypt override; EITHER Encrypt refuses (counted per side of 65536) OR the document passes the structural monitor and is decrypted by refenc and by kit (seeded reader styles) to the plaintext; the published format sets no header limit and refenc imposes none. "+
		"Huge cases (after the ordinary ones, each run by one child): a generated plaintext of 4 GiB + 64 KiB + 100 bytes = 65538 segments (every segment differs) is streamed through kit.Encrypt and decrypted by refenc's streaming reader (quick: AES-GCM; thorough: both ciphers and also refenc's streaming Encrypt -> kit.Decrypt), "+
		"compared position by position with the generator, plus total length, segment count and ciphertext length; this is the only place where segment numbers >= 65536 (the upper half of the nonce's 32-bit counter) occur.")
	rec.Note("require", []string{"callback.inner_round_trips", "struct.ok", "ref_decrypts_kit.ok", "kit_decrypts_ref.ok", "roundtrip.ok", "key_missing.ok", "testdata.files_decrypted_by_refenc",
		"src.zero_length_reads", "src.eof_with_last_data", "src.pipe_sources", "length.len=0", "length.len=k*64K", "length.len=k*64K+1", "length.len=k*64K-1",
		"srccap.decrypt.os.Pipe", "srccap.encrypt.os.Pipe", "srccap.decrypt.file@0", "srccap.encrypt.file@0", "srccap.decrypt.file@offset", "srccap.encrypt.file@offset", "srccap.decrypt.SectionReader@base", "srccap.encrypt.SectionReader@base", "srccap.decrypt.erroring-Seek", "srccap.encrypt.erroring-Seek", "srccap.decrypt.Seek-forwarding+counting", "srccap.encrypt.Seek-forwarding+counting", "srccap.decrypt.bufio+inconsistent-Seek", "srccap.encrypt.bufio+inconsistent-Seek", "srccap.decrypt.bytes.Reader", "srccap.encrypt.bytes.Reader", "srccap.decrypt.ReadAt+WriteTo+ReadByte", "srccap.encrypt.ReadAt+WriteTo+ReadByte",
		"manifest.ok.order=go", "manifest.ok.order=alphabetical", "manifest.ok.order=reversed", "manifest.ok.order=k-last", "manifest.ok.escape=go", "manifest.ok.escape=minimal", "manifest.ok.escape=solidus", "manifest.ok.escape=u-non-ascii", "manifest.ok.escape=u-some-ascii", "manifest.ok.escape=u-everything", "keyname.ok", "keyname.ok.KeyName", "keyname.ok.DecryptionKeyName", "keyname.ok.override", "keyname.ok.name_with_outer_white_space", "keyname.look_alikes_in_the_store", "wksize.roundtrip_ok", "wksize.roundtrip_ok.wrapped_key_longer_than_512", "wksize.kit_decrypts_ref_ok", "wksize.kit_decrypts_ref_ok.wrapped_key_longer_than_512", "wksize.empty_wrapped_key_looked_at", "manifest.ordinary_cases.order=alphabetical", "manifest.ordinary_cases.escape=u-everything",
		"overlap.ok", "overlap.failures_provoked_before_the_nested_round_trip", "overlap.provoked.tampered", "overlap.provoked.cut-mid-segment", "overlap.provoked.decrypt_stream_abandoned_and_closed", "overlap.provoked.encrypt_stream_abandoned_and_closed", "overlap.provoked.encrypt_source_failed", "callback.argmode.wrapped-in-place-and-returned", "callback.argmode.wrapped-in-place-and-returned.same_slice_returned", "callback.argmode.zeroed-after-wrapping", "callback.argmode.scribbled-after-wrapping",
		"callback.owned.cases", "callback.owned.memory_verified_intact", "callback.owned.unwrap_answered_from_the_same_slice", "bigname.roundtrip_ok", "bigname.roundtrip_ok.header-le-65536", "bigname.roundtrip_ok.ordinary-long-name", "bigname.encrypt_accepted.header-le-65536", "huge.kit-to-ref.ok", "huge.segments_beyond_65535_authenticated", "alg.AES", "alg.RSA", "alg.A128CBC-NOPAD", "alg.A192CBC-NOPAD", "alg.A256CBC-NOPAD", "alg.A256KW", "alg.RSA-OAEP-256"})
	planNote := map[string]int{"covering_array_rows": nPairwise, "full_product_rows": nProduct, "total": len(specs),
		"huge_cases": len(hugePlan()), "long_key_name_cases": len(bigPlan()), "manifest_encoding_cases": len(manifestPlan()), "wrapped_key_size_cases": len(wkPlan()), "key_name_shape_cases": len(namePlan())}
	for idx, sp := range specs {
		planNote["wrap_argument."+argModeNames[argModeOf(idx)]]++
		if argModeOf(idx) == argInPlace && symSize(algs[sp.Alg].resolved) > 0 && algs[sp.Alg].resolved != "A256KW" {
			planNote["wrap_argument.wrapped-in-place-and-returned.with_a_32_byte_wrapping"]++
		}
		if idx%3 == 0 {
			planNote["callback_owned_memory_cases"]++
		}
		if idx%2 == 1 {
			planNote["busy_callback_cases"]++
		}
		mo, me := manifestStyleOf(idx)
		planNote["ref_manifest.order="+refenc.StyleName(mo)]++
		planNote["ref_manifest.escape="+refenc.StyleName(me)]++
		kd, ke := capKindsOf(idx)
		planNote["source_capability.decrypt."+capKinds[kd]]++
		planNote["source_capability.encrypt."+capKinds[ke]]++
	}
	rec.Note("plan", planNote)
	// the huge cases come after the ordinary ones; each is run by exactly one child
	for i, h := range hugePlan() {
		idx := len(specs) + i
		if !mon.Mine(idx) {
			continue
		}
		rec.Begin(idx, h.String())
		if runHuge(idx, h) {
			rec.Case(idx, h.String(), true)
		}
	}
	// key name shapes (after the wrapped key sizes)
	for i, ns := range namePlan() {
		idx := len(specs) + len(hugePlan()) + len(bigPlan()) + len(manifestPlan()) + len(wkPlan()) + i
		if !mon.Mine(idx) {
			continue
		}
		rec.Begin(idx, ns.String())
		if runNameCase(idx, ns) {
			rec.Case(idx, ns.String(), true)
		}
	}
	// wrapped key sizes (after the manifest encodings)
	for i, ws := range wkPlan() {
		idx := len(specs) + len(hugePlan()) + len(bigPlan()) + len(manifestPlan()) + i
		if !mon.Mine(idx) {
			continue
		}
		rec.Begin(idx, ws.String())
		if runWKCase(idx, ws) {
			rec.Case(idx, ws.String(), true)
		}
	}
	// manifest encodings of an independent writer (after the long key names)
	for i, ms := range manifestPlan() {
		idx := len(specs) + len(hugePlan()) + len(bigPlan()) + i
		if !mon.Mine(idx) {
			continue
		}
		rec.Begin(idx, ms.String())
		if runManifestCase(idx, ms) {
			rec.Case(idx, ms.String(), true)
		}
	}
	// long key names: header lengths around 64 KiB (after the huge cases)
	for i, bs := range bigPlan() {
		idx := len(specs) + len(hugePlan()) + i
		if !mon.Mine(idx) {
			continue
		}
		rec.Begin(idx, bs.String())
		if runBigName(idx, bs) {
			rec.Case(idx, bs.String(), true)
		}
	}
	for idx, s := range specs {
		if !mon.Mine(idx) {
			continue
		}
		rec.Begin(idx, s.String())
		if idx == 0 {
			checkTestdata(idx)
		}
		if runCase(idx, s) {
			rec.Case(idx, s.String(), true)
		}
	}
}
