package c01

// "Key name shapes": the key store selects keys strictly by the byte-exact
// name it is handed, and holds at the same time look-alikes of the case's
// names - trimmed, padded, case-folded, normalised, unescaped spellings - each
// with a DIFFERENT key. Any alteration of a name between Encrypt's WrapKeyFn
// call, the manifest and Decrypt's UnwrapKeyFn call selects the wrong key (or
// none): the round trip fails, and the callback monitor names the difference.

import (
	"fmt"
	"strconv"
	"strings"

	"verif/harness/internal/mon"
)

var nameShapes = []string{
	// white space around and inside (space, tab, LF, CR, NBSP U+00A0, EM SPACE U+2003)
	"mykey ", " mykey", "mykey\n", "mykey\r\n", "\tk", " ", "  ", "\n", "my key", "my\tkey", " k ", "\u00a0k\u00a0", "k\u2003", "\u2003", "\u00a0",
	// look-alikes that differ only by white space
	"k", "k ", " k",
	// NUL and control characters (JSON-escaped in the manifest)
	"k\x00", "\x00", "a\x01b\x1f", "k\x7f",
	// names that look like JSON, base64 or escapes
	`{"k":1}`, `a==`, `\u0041`, `"`, `null`, `true`, `0`, `\\`, `k","kw":5,"x":"`,
	// case-only differences
	"Key", "key", "KEY",
	// Unicode normalisation twins: e-acute precomposed (U+00E9) and e + combining acute (U+0301)
	"caf\u00e9", "cafe\u0301",
	// path-like
	"key/1", "key/1/", "/key/1",
}

type nameSpec struct {
	shape   int
	carrier string // KeyName | DecryptionKeyName | override
	cipher  int
	alg     int
}

func (n nameSpec) String() string {
	return fmt.Sprintf("key-name-shape %s=%q cipher=%s alg=%s", n.carrier, nameShapes[n.shape], cipherNames[n.cipher], algs[n.alg].opt)
}

func namePlan() []nameSpec {
	var out []nameSpec
	algIdx := []int{0, 3} // symmetric algorithms: every name in the store has its own key material
	if mon.Thorough() {
		algIdx = []int{0, 1, 2, 3, 5}
	}
	i := 0
	for si := range nameShapes {
		for _, carrier := range []string{"KeyName", "DecryptionKeyName", "override"} {
			reps := 1
			if mon.Thorough() {
				reps = len(algIdx) * 2
			}
			for r := 0; r < reps; r++ {
				out = append(out, nameSpec{shape: si, carrier: carrier, cipher: 1 + i%2, alg: algIdx[(i/2)%len(algIdx)]})
				i++
			}
		}
	}
	return out
}

// lookAlikes: what a well-meaning normalisation would turn name into (and the other shapes).
func lookAlikes(name string) []string {
	out := append([]string{}, nameShapes...)
	out = append(out, strings.TrimSpace(name), strings.TrimRight(name, " \t\r\n"), strings.TrimLeft(name, " \t\r\n"), strings.Trim(name, "\x00"),
		name+" ", " "+name, name+"\n", strings.ToLower(name), strings.ToUpper(name), strings.ReplaceAll(name, " ", ""), strings.Join(strings.Fields(name), " "),
		strings.ReplaceAll(name, "\u00e9", "e\u0301"), strings.ReplaceAll(name, "e\u0301", "\u00e9"), strings.ReplaceAll(name, `\u0041`, "A"), strings.ReplaceAll(name, "\u00a0", " "), strconv.Quote(name))
	return out
}

func runNameCase(idx int, n nameSpec) bool {
	rng := mon.NewRNG("c01-keyname", idx)
	target := nameShapes[n.shape]
	names := [3]string{"enc-key", "dec-key", "override-key"}
	s := spec{Len: []int{0, 1, 5, 8}[rng.Intn(4)], Cipher: n.cipher, Alg: n.alg,
		SrcE: rng.Intn(nSrc), ConsE: rng.Intn(nCons), SrcD: rng.Intn(nSrc), ConsD: rng.Intn(nCons), SrcR: rng.Intn(nSrc), ConsR: rng.Intn(nCons)}
	switch n.carrier {
	case "KeyName":
		names[0] = target
		// with or without a separate decryption name, never omitted: the manifest carries the shaped name
		s.DKN = false
		s.Override = false
	case "DecryptionKeyName":
		names[1] = target
		s.DKN = true
	default:
		names[2] = target
		s.Omit, s.Override = true, true
		s.DKN = rng.Bool()
	}
	v := newVault("keyname"+strconv.Itoa(idx), names[0], names[1], names[2])
	for _, nm := range names {
		for _, la := range lookAlikes(nm) {
			if la != "" {
				v.addLookAlike(la)
			}
		}
	}
	rec.Count("keyname.look_alikes_in_the_store", len(v.other))
	before := rec.Violations()
	ok := runCaseWith(idx, s, names, v, n.String())
	if ok && rec.Violations() == before {
		rec.Count("keyname.ok."+n.carrier, 1)
		rec.Count("keyname.ok", 1)
		if strings.TrimSpace(target) != target {
			rec.Count("keyname.ok.name_with_outer_white_space", 1)
		}
	}
	return ok
}
