package c01

// Manifest encodings of an independent writer: see internal/refenc/manifest.go
// for what the published format fixes (compact JSON, padded standard base64)
// and what it leaves to the writer (member order, JSON string escaping).

import (
	"bytes"
	"fmt"
	"strconv"

	"verif/harness/internal/mon"
	"verif/harness/internal/refenc"
)

// richName contains everything encoders disagree about: solidus, <, >, &, quotation mark, reverse solidus,
// control characters, DEL, U+2028/U+2029 (which encoding/json escapes although JSON does not require it),
// non-ASCII from several scripts and characters beyond the BMP (surrogate pairs in \u form).
const richName = "vault/keys/<enc&dec> \"quoted\" back\\slash tab\tbell\bff\fnl\ncr\r del\x7f \u00e9 \u00df \u043a\u043b\u044e\u0447 \u9375 ls\u2028ps\u2029 \U0001F600\U0001D11E end"

func manifestStyleOf(idx int) (order, escape string) {
	return refenc.ManifestOrders[idx%len(refenc.ManifestOrders)], refenc.ManifestEscapes[(idx/len(refenc.ManifestOrders))%len(refenc.ManifestEscapes)]
}

type manifestSpec struct {
	order, escape string
	cipher, alg   int
	named         bool // the manifest carries the rich key name (else no k at all)
	ptLen         int
}

func (m manifestSpec) String() string {
	return fmt.Sprintf("manifest-encoding order=%s escape=%s cipher=%s alg=%s key-name=%v plaintext=%d", refenc.StyleName(m.order), refenc.StyleName(m.escape), cipherNames[m.cipher], algs[m.alg].opt, m.named, m.ptLen)
}

func manifestPlan() []manifestSpec {
	var out []manifestSpec
	algIdx := []int{0, 4} // A256KW, RSA-OAEP-256 (long base64 with many '/' and '+')
	if mon.Thorough() {
		algIdx = []int{0, 1, 2, 3, 4}
	}
	i := 0
	for _, a := range algIdx {
		for _, o := range refenc.ManifestOrders {
			for _, e := range refenc.ManifestEscapes {
				for c := 1; c <= 2; c++ {
					for _, named := range []bool{true, false} {
						out = append(out, manifestSpec{order: o, escape: e, cipher: c, alg: a, named: named, ptLen: []int{0, 1000, 65537}[i%3]})
						i++
					}
				}
			}
		}
	}
	return out
}

func runManifestCase(idx int, m manifestSpec) bool {
	rng := mon.NewRNG("c01-manifest", idx)
	alg := algs[m.alg]
	name := ""
	if m.named {
		name = richName
	}
	c := &caseCtx{idx: idx, L: m.ptLen, names: [3]string{"enc-key", richName, "override/name"}, note: m.String(),
		s: spec{Cipher: m.cipher, Alg: m.alg, DKN: true, Omit: !m.named, Override: !m.named}}
	v := newVault("manifest"+strconv.Itoa(idx), "enc-key", richName, "override/name")
	cb := &cbMon{v: v}
	pt := mon.NewRNG("c01-pt", idx).Bytes(m.ptLen)
	var wfk []byte
	doc, err := refenc.Encrypt(pt, refenc.EncryptOptions{KeyName: name, KW: alg.id, Cipher: cipherID(m.cipher), ManifestOrder: m.order, ManifestEscape: m.escape,
		Wrap: func(fk []byte) ([]byte, error) {
			w, err := v.wrap(fk, alg.resolved, "enc-key")
			wfk = w
			return w, err
		}})
	if err != nil {
		rec.Inconclusive(idx, "refenc.Encrypt failed: "+err.Error(), m.String())
		return false
	}
	// the writer's own reader agrees (sanity of the reference side)
	if back, err := refenc.Decrypt(doc, func(w []byte, kw int, n string) ([]byte, error) { return v.unwrap(w, refenc.KWName(kw), "enc-key") }); err != nil || !bytes.Equal(back, pt) {
		rec.Inconclusive(idx, fmt.Sprintf("the reference implementation cannot read its own document: %v", err), m.String())
		return false
	}
	stage := "manifest-encoding/order=" + refenc.StyleName(m.order) + "/escape=" + refenc.StyleName(m.escape)
	if !kitDecrypt(c, cb, rng, stage, doc, pt, rng.Intn(nSrc), rng.Intn(nCons), wfk, alg.resolved, name) {
		return true
	}
	rec.Count("manifest.ok.order="+refenc.StyleName(m.order), 1)
	rec.Count("manifest.ok.escape="+refenc.StyleName(m.escape), 1)
	if rec.WantSample() && idx%11 == 3 {
		rec.Sample(map[string]any{"case": m.String(), "header": head(doc, 900)})
	}
	return true
}
