package c01

// "Wrapped key size": the wrapped file key is whatever the key store's wrap
// function returns - 32 or 40 bytes for the AES algorithms, the modulus size
// for RSA (the README: "Dapr doesn't impose limitations on the size of the
// key ... 4096-bit keys are strongly recommended", so larger ones exist), or a
// KMS envelope of a few KiB. Stand-in wrap functions sweep the length; both
// directions are checked (kit Encrypt -> refenc and kit Decrypt; refenc
// Encrypt -> kit Decrypt). A real RSA key above 4096 bits is used in the
// thorough tier (generating it takes 1-6 s). Combined with a long key name the
// wrapped key also drives the header to its 64 KiB mark from the other side.

import (
	"bytes"
	"crypto/rand"
	"crypto/rsa"
	"crypto/x509"
	"encoding/pem"
	"errors"
	"fmt"
	"io"
	"sync"

	kitcrypto "github.com/dapr/kit/crypto"
	enc "github.com/dapr/kit/schemes/enc/v1"

	"verif/harness/internal/mon"
	"verif/harness/internal/refenc"
)

type wkSpec struct {
	wfkLen  int // length of the stand-in wrapped key (-1: a real RSA-OAEP-256 wrap with a 4608-bit key)
	cipher  int
	hdrGoal int // >0: the key name is sized so that the header is exactly this long
	ptLen   int
}

func (w wkSpec) String() string {
	k := fmt.Sprintf("stand-in wrapped key of %d bytes", w.wfkLen)
	if w.wfkLen < 0 {
		k = "RSA-OAEP-256 with a 4608-bit key (576-byte wrapped key)"
	}
	h := ""
	if w.hdrGoal > 0 {
		h = fmt.Sprintf(" header-length=%d", w.hdrGoal)
	}
	return fmt.Sprintf("wrapped-key-size %s%s cipher=%s plaintext=%d", k, h, cipherNames[w.cipher], w.ptLen)
}

func wkPlan() []wkSpec {
	var out []wkSpec
	i := 0
	for c := 1; c <= 2; c++ {
		for _, n := range []int{0, 1, 31, 32, 33, 40, 256, 511, 512, 513, 576, 640, 1024, 4096, 16384} {
			out = append(out, wkSpec{wfkLen: n, cipher: c, ptLen: []int{0, 1000, 65537}[i%3]})
			i++
		}
		// the header limit approached from the wrapped-key side (a 48000-byte envelope is 64000 base64 characters)
		for _, goal := range []int{65533, 65534, 65535, 65536, 65537, 65538, 65552, 65553} {
			out = append(out, wkSpec{wfkLen: 48000, cipher: c, hdrGoal: goal, ptLen: []int{0, 1000, 65537}[i%3]})
			i++
		}
		if mon.Thorough() {
			out = append(out, wkSpec{wfkLen: -1, cipher: c, ptLen: 1000})
			for _, n := range []int{2, 16, 48, 100, 384, 768, 2048, 8192, 32768, 47000} {
				out = append(out, wkSpec{wfkLen: n, cipher: c, ptLen: 1000})
			}
		}
	}
	return out
}

var (
	bigRSAOnce sync.Once
	bigRSAPEM  []byte
)

func bigRSAKeyPEM() []byte {
	bigRSAOnce.Do(func() {
		k, err := rsa.GenerateKey(rand.Reader, 4608)
		if err != nil {
			rec.Fatalf("rsa.GenerateKey(4608): %v", err)
		}
		der, _ := x509.MarshalPKCS8PrivateKey(k)
		bigRSAPEM = pem.EncodeToMemory(&pem.Block{Type: "PRIVATE KEY", Bytes: der})
	})
	return bigRSAPEM
}

// standIn is a key store whose wrapped keys are envelopes of a chosen length:
// tag | key | deterministic padding when there is room for the key, otherwise an opaque handle.
type standIn struct {
	n     int
	label string
	table map[string][]byte
	real  bool
}

func (s *standIn) wrap(fk []byte) ([]byte, error) {
	if s.real {
		key, err := kitcrypto.ParseKey(bigRSAKeyPEM(), "application/x-pem-file")
		if err != nil {
			return nil, err
		}
		return kitcrypto.EncryptPublicKey(fk, "RSA-OAEP-256", key, nil)
	}
	env := mon.NewRNG("c01-envelope/"+s.label, s.n).Bytes(s.n)
	if s.n >= 36 {
		copy(env, "ENV1")
		copy(env[4:], fk)
	}
	s.table[string(env)] = append([]byte(nil), fk...)
	return env, nil
}

func (s *standIn) unwrap(w []byte) ([]byte, error) {
	if s.real {
		key, err := kitcrypto.ParseKey(bigRSAKeyPEM(), "application/x-pem-file")
		if err != nil {
			return nil, err
		}
		return kitcrypto.DecryptPrivateKey(w, "RSA-OAEP-256", key, nil)
	}
	fk, ok := s.table[string(w)]
	if !ok {
		return nil, errors.New("stand-in key store: unknown envelope")
	}
	if s.n >= 36 && !bytes.Equal(w[4:36], fk) {
		return nil, errors.New("stand-in key store: envelope does not carry the key")
	}
	return append([]byte(nil), fk...), nil
}

func runWKCase(idx int, w wkSpec) bool {
	rng := mon.NewRNG("c01-wksize", idx)
	pt := mon.NewRNG("c01-pt", idx).Bytes(w.ptLen)
	ks := &standIn{n: w.wfkLen, label: fmt.Sprint(idx), table: map[string][]byte{}, real: w.wfkLen < 0}
	ci := enc.CipherAESGCM
	if w.cipher == 2 {
		ci = enc.CipherChaCha20Poly1305
	}
	algOpt, algName, kw := enc.KeyAlgorithmRSAOAEP256, "RSA-OAEP-256", refenc.KWRSAOAEP256
	lenTag := fmt.Sprintf("wfk-len=%d", w.wfkLen)
	if w.wfkLen < 0 {
		lenTag = "wfk=rsa-4608"
	}
	if w.hdrGoal > 0 {
		lenTag += fmt.Sprintf("+header-len=%d", w.hdrGoal)
	}
	name := "wk-key"
	c := &caseCtx{idx: idx, L: w.ptLen, names: [3]string{name, "", ""}, note: w.String(), s: spec{Cipher: w.cipher, Alg: 4}}
	viol := func(what, msg string) {
		c.names[0] = name
		c.viol("wksize/"+what+"/"+lenTag+"/"+cipherNames[w.cipher], msg, map[string]any{"wrapped_key_len": w.wfkLen})
	}
	if w.hdrGoal > 0 {
		// probe the header length with the short name, then lengthen the name to hit the goal
		probe, err := refenc.Encrypt(nil, refenc.EncryptOptions{KeyName: name, KW: kw, Cipher: cipherID(w.cipher), Wrap: ks.wrap})
		if err != nil {
			rec.Inconclusive(idx, "probe failed: "+err.Error(), w.String())
			return false
		}
		need := w.hdrGoal - len(probe)
		if need < 0 {
			rec.Inconclusive(idx, "the wrapped key alone already exceeds the header goal", w.String())
			return false
		}
		name += bigName(need)
	}
	var kitWFK []byte
	gotAlg, gotName := "", ""
	wrapFn := func(fk []byte, a, n string, nonce []byte) ([]byte, []byte, error) {
		gotAlg, gotName = a, n
		out, err := ks.wrap(fk)
		kitWFK = append([]byte(nil), out...)
		return out, nil, err
	}
	unwrapFn := func(wk []byte, a, n string, nonce, tag []byte) ([]byte, error) {
		if n != name || a != algName {
			viol("callback/unwrap-arguments", fmt.Sprintf("unwrap received algorithm %q and a %d-byte key name %q..., the document was encrypted under %q (%d bytes)", a, len(n), abbr(n), abbr(name), len(name)))
			return nil, errors.New("stand-in key store: no such key")
		}
		return ks.unwrap(wk)
	}
	kitDec := func(what string, doc []byte) bool {
		r, _, cleanup := source(doc, rng.Intn(nSrc), rng)
		dr, err := callDecrypt(r, enc.DecryptOptions{UnwrapKeyFn: unwrapFn})
		if err != nil {
			cleanup()
			viol(what+"/decrypt-error", fmt.Sprintf("Decrypt refuses a valid document whose wrapped key is %d bytes long (header %d bytes): %v", len(kitWFK), headerLen(doc), err))
			return false
		}
		got, terr, stuck := consume(dr, rng.Intn(nCons), rng, len(pt))
		cleanup()
		if stuck || terr != io.EOF || !bytes.Equal(got, pt) {
			viol(what+"/stream", fmt.Sprintf("decryption of a valid document gives %d bytes, err=%v (plaintext %d bytes)", len(got), terr, len(pt)))
			return false
		}
		return true
	}

	// ---- kit Encrypt -> refenc Decrypt and kit Decrypt
	rec.Step("kit.Encrypt " + w.String())
	er, err := callEncrypt(bytes.NewReader(pt), enc.EncryptOptions{WrapKeyFn: wrapFn, Algorithm: algOpt, KeyName: name, Cipher: &ci})
	if err != nil {
		// legal: Encrypt may refuse what it cannot put into a header (counted, see also the long-key-name family)
		rec.Count("wksize.encrypt_refused."+lenTag, 1)
		rec.Count("wksize.encrypt_refused", 1)
	} else {
		ct, terr := io.ReadAll(er)
		switch {
		case terr != nil:
			viol("kit-encrypt/stream-error", "the Encrypt stream failed: "+terr.Error())
			return true
		case gotAlg != algName || gotName != name:
			viol("kit-encrypt/callback-arguments", fmt.Sprintf("wrap received (%q, %d-byte name)", gotAlg, len(gotName)))
			return true
		}
		if w.wfkLen == 0 {
			// An EMPTY wrapped key: the format does not say it is legal (a wrapped key is the output of a key-wrapping
			// algorithm) and the reference refuses it as well; what kit does with it is looked at, not judged.
			_, rerr := refenc.Decrypt(ct, func(wk []byte, k int, n string) ([]byte, error) { return ks.unwrap(wk) })
			dr, derr := callDecrypt(bytes.NewReader(ct), enc.DecryptOptions{UnwrapKeyFn: unwrapFn})
			if derr == nil {
				_, derr = io.ReadAll(dr)
			}
			rec.Observe(fmt.Sprintf("empty wrapped key: Encrypt accepts it; Decrypt: %v; reference: %v (not judged: the format promises nothing for an empty wrapped key)", derr, rerr))
			rec.Count("wksize.empty_wrapped_key_looked_at", 1)
			return true
		}
		if w.hdrGoal > 0 && headerLen(ct) != w.hdrGoal {
			rec.Inconclusive(idx, fmt.Sprintf("header is %d bytes, the case aimed at %d", headerLen(ct), w.hdrGoal), w.String())
			return false
		}
		if sig, msg := structural(ct, w.ptLen, kw, cipherID(w.cipher), kitWFK, name); sig != "" {
			viol("kit-encrypt/struct/"+sig, msg)
			return true
		}
		back, err := refenc.Decrypt(ct, func(wk []byte, k int, n string) ([]byte, error) { return ks.unwrap(wk) })
		if err != nil || !bytes.Equal(back, pt) {
			viol("ref-decrypts-kit/"+errClassOrDiffer(err), fmt.Sprintf("the reference implementation does not decrypt kit's document: %v", err))
			return true
		}
		if !kitDec("roundtrip", ct) {
			return true
		}
		rec.Count("wksize.roundtrip_ok", 1)
		if w.wfkLen > 512 || w.wfkLen < 0 {
			rec.Count("wksize.roundtrip_ok.wrapped_key_longer_than_512", 1)
		}
	}

	// ---- refenc Encrypt -> kit Decrypt
	if w.wfkLen == 0 {
		return true
	}
	kitWFK = nil
	doc, err := refenc.Encrypt(pt, refenc.EncryptOptions{KeyName: name, KW: kw, Cipher: cipherID(w.cipher), Wrap: func(fk []byte) ([]byte, error) {
		out, err := ks.wrap(fk)
		kitWFK = out
		return out, err
	}})
	if err != nil {
		rec.Inconclusive(idx, "refenc.Encrypt failed: "+err.Error(), w.String())
		return false
	}
	if headerLen(doc) > refenc.SegmentSize {
		// The format sets no header limit, kit reads at most 64 KiB of header and refuses to WRITE longer ones, so a
		// longer header from another writer is outside what kit promises to read: looked at, not judged.
		dr, derr := callDecrypt(bytes.NewReader(doc), enc.DecryptOptions{UnwrapKeyFn: unwrapFn})
		if derr == nil {
			_, derr = io.ReadAll(dr)
		}
		rec.Count("wksize.reference_document_with_header_over_64KiB_looked_at", 1)
		rec.Observe(fmt.Sprintf("a reference document whose header is longer than 64 KiB (wrapped-key side): kit Decrypt refuses it: %v (not judged)", derr != nil))
		return true
	}
	if !kitDec("kit-decrypts-ref", doc) {
		return true
	}
	rec.Count("wksize.kit_decrypts_ref_ok", 1)
	if w.wfkLen > 512 || w.wfkLen < 0 {
		rec.Count("wksize.kit_decrypts_ref_ok.wrapped_key_longer_than_512", 1)
	}
	return true
}

func headerLen(doc []byte) int {
	for i, nl := 0, 0; i < len(doc); i++ {
		if doc[i] == '\n' {
			if nl++; nl == 3 {
				return i + 1
			}
		}
	}
	return -1
}
