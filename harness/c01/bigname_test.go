package c01

// Key names so long that the three-line header lands around the 64 KiB mark
// (every length from SegmentSize-2 to SegmentSize+20, i.e. every off-by-one
// around 65536 and around 65552 = segment + tag), plus ordinary 10 KiB and
// 60 KiB names. The published format sets no limit on the header, so the
// oracle is: EITHER Encrypt refuses (counted) OR what it produced is decrypted
// by kit AND by the reference implementation to the plaintext.

import (
	"bytes"
	"fmt"
	"io"
	"strconv"

	enc "github.com/dapr/kit/schemes/enc/v1"

	"verif/harness/internal/mon"
	"verif/harness/internal/refenc"
)

type bigSpec struct {
	target       int // wanted header length (0: use nameLen)
	nameLen      int
	cipher       int    // 1 AES-GCM, 2 ChaCha20-Poly1305
	alg          int    // index into algs
	carrier      string // which option carries the long name: KeyName | DecryptionKeyName
	ptLen        int
	longOverride bool // decrypt with a (long) override name
}

func (s bigSpec) String() string {
	w := fmt.Sprintf("name-length=%d", s.nameLen)
	if s.target > 0 {
		w = fmt.Sprintf("header-length=%d", s.target)
	}
	return fmt.Sprintf("bigname %s carrier=%s cipher=%s alg=%s plaintext=%d long-override=%v", w, s.carrier, cipherNames[s.cipher], algs[s.alg].opt, s.ptLen, s.longOverride)
}

func bigPlan() []bigSpec {
	var out []bigSpec
	algIdx := []int{0, 1, 4} // A256KW (40-byte wfk), A128CBC-NOPAD (32), RSA-OAEP-256 (256)
	if mon.Thorough() {
		algIdx = []int{0, 1, 2, 3, 4, 5, 6}
	}
	i := 0
	for _, a := range algIdx {
		for c := 1; c <= 2; c++ {
			for _, carrier := range []string{"KeyName", "DecryptionKeyName"} {
				for t := refenc.SegmentSize - 2; t <= refenc.SegmentSize+20; t++ {
					out = append(out, bigSpec{target: t, cipher: c, alg: a, carrier: carrier, ptLen: []int{0, 1000, 65537}[i%3], longOverride: i%5 == 0})
					i++
				}
				for _, n := range []int{10 << 10, 60 << 10} {
					out = append(out, bigSpec{nameLen: n, cipher: c, alg: a, carrier: carrier, ptLen: []int{0, 1000, 65537}[i%3], longOverride: i%2 == 0})
					i++
				}
			}
		}
	}
	return out
}

// bigName is a printable ASCII name of exactly n bytes that needs no JSON escaping.
func bigName(n int) string {
	b := make([]byte, n)
	for i := range b {
		b[i] = "abcdefghijklmnopqrstuvwxyz0123456789-/"[(i*7+i/38)%38]
	}
	return string(b)
}

// headerOverhead returns (header length - name length) for a cipher/algorithm pair,
// measured on a real document with an 8-byte name (the wrapped key has a fixed size per algorithm).
var overheadCache = map[[2]int]int{}

func headerOverhead(cipher, alg int) (int, error) {
	if v, ok := overheadCache[[2]int{cipher, alg}]; ok {
		return v, nil
	}
	v := newVault("probe", "probe-k8")
	ci := enc.CipherAESGCM
	if cipher == 2 {
		ci = enc.CipherChaCha20Poly1305
	}
	r, err := enc.Encrypt(bytes.NewReader(nil), enc.EncryptOptions{Algorithm: algs[alg].opt, KeyName: "probe-k8", Cipher: &ci,
		WrapKeyFn: func(fk []byte, a, n string, nonce []byte) ([]byte, []byte, error) {
			w, err := v.wrap(fk, a, n)
			return w, nil, err
		}})
	if err != nil {
		return 0, err
	}
	doc, err := io.ReadAll(r)
	if err != nil {
		return 0, err
	}
	overheadCache[[2]int{cipher, alg}] = len(doc) - 8
	return len(doc) - 8, nil
}

func runBigName(idx int, s bigSpec) bool {
	rng := mon.NewRNG("c01-bigname", idx)
	over, err := headerOverhead(s.cipher, s.alg)
	if err != nil {
		rec.Inconclusive(idx, "probe encryption failed: "+err.Error(), s.String())
		return false
	}
	n := s.nameLen
	if s.target > 0 {
		n = s.target - over
	}
	long := bigName(n)
	keyName, decName, override := long, "", "override-"+bigName(3000)
	if s.carrier == "DecryptionKeyName" {
		keyName, decName = "enc-key", long
	}
	alg := algs[s.alg]
	c := &caseCtx{idx: idx, L: s.ptLen, names: [3]string{keyName, decName, override}, note: s.String(),
		s: spec{Cipher: s.cipher, Alg: s.alg, DKN: decName != "", Override: s.longOverride}}
	v := newVault("big"+strconv.Itoa(idx), keyName, long, override)
	cb := &cbMon{v: v}
	pt := mon.NewRNG("c01-pt", idx).Bytes(s.ptLen)
	ci := enc.CipherAESGCM
	if s.cipher == 2 {
		ci = enc.CipherChaCha20Poly1305
	}
	where := "header-le-65536"
	if s.target > refenc.SegmentSize {
		where = "header-gt-65536"
	}
	if s.target == 0 {
		where = "ordinary-long-name"
	}
	rec.Step("kit.Encrypt " + s.String())
	er, err := callEncrypt(bytes.NewReader(pt), enc.EncryptOptions{WrapKeyFn: cb.wrap, Algorithm: alg.opt, KeyName: keyName, DecryptionKeyName: decName, Cipher: &ci})
	if err != nil {
		// legal: Encrypt may refuse a name it cannot put into a header
		rec.Count("bigname.encrypt_refused."+where, 1)
		rec.Count("bigname.encrypt_refused", 1)
		return true
	}
	ct, terr := io.ReadAll(er)
	if terr != nil {
		c.viol("bigname/encrypt-stream-error/"+where, "the Encrypt stream failed: "+terr.Error(), nil)
		return true
	}
	rec.Count("bigname.encrypt_accepted."+where, 1)
	hdrLen := 0
	for i, nl := 0, 0; i < len(ct); i++ {
		if ct[i] == '\n' {
			if nl++; nl == 3 {
				hdrLen = i + 1
				break
			}
		}
	}
	if s.target > 0 && hdrLen != s.target {
		rec.Inconclusive(idx, fmt.Sprintf("the header is %d bytes, the case aimed at %d", hdrLen, s.target), s.String())
		return false
	}
	tag := fmt.Sprintf("/header-len=%d/%s", hdrLen, cipherNames[s.cipher])
	wfk := cb.wraps[len(cb.wraps)-1].out
	if sig, msg := structural(ct, s.ptLen, alg.id, cipherID(s.cipher), wfk, long); sig != "" {
		c.viol("bigname/struct/"+sig+tag, msg, map[string]any{"header_len": hdrLen})
		return true
	}
	got, err := refenc.Decrypt(ct, func(w []byte, kw int, name string) ([]byte, error) { return v.unwrap(w, refenc.KWName(kw), name) })
	if err != nil || !bytes.Equal(got, pt) {
		c.viol("bigname/ref-decrypts-kit/"+errClassOrDiffer(err)+tag, fmt.Sprintf("the reference implementation does not decrypt a document Encrypt produced (header %d bytes): %v", hdrLen, err), map[string]any{"header_len": hdrLen})
		return true
	}
	srcStyle, consStyle := rng.Intn(nSrc), rng.Intn(nCons)
	if !kitDecrypt(c, cb, rng, "bigname-roundtrip/header-len="+strconv.Itoa(hdrLen), ct, pt, srcStyle, consStyle, wfk, alg.resolved, long) {
		return true
	}
	rec.Count("bigname.roundtrip_ok."+where, 1)
	rec.Count("bigname.roundtrip_ok", 1)
	return true
}

func errClassOrDiffer(err error) string {
	if err == nil {
		return "plaintext-differs"
	}
	return refErrClass(err)
}
