package c01

// The "huge" cases: a plaintext of more than 65536 segments (> 4 GiB), so that
// the upper 16 bits of the 32-bit big-endian segment counter of the nonce are
// exercised. Everything is streamed (generator -> Encrypt -> Decrypt ->
// running comparison against the generator); memory stays flat.

import (
	"errors"
	"fmt"
	"io"
	"time"

	enc "github.com/dapr/kit/schemes/enc/v1"

	"verif/harness/internal/mon"
	"verif/harness/internal/refenc"
)

// 65537 full segments and a last one of 100 bytes: segment numbers 0..65537.
const hugeSize = int64(65536)*65536 + 65536 + 100

const hugeSegments = 65538

type hugeSpec struct {
	dir    string // kit-to-ref | ref-to-kit
	cipher int    // 1 AES-GCM, 2 ChaCha20-Poly1305 (index into cipherNames)
}

func (h hugeSpec) String() string {
	return fmt.Sprintf("huge %s cipher=%s plaintext=%d bytes (%d segments)", h.dir, cipherNames[h.cipher], hugeSize, hugeSegments)
}

// hugePlan: quick = one kit->ref case with the cheaper cipher (AES-GCM on this
// machine, see the package's measurements in the rule note); thorough = both
// directions x both ciphers.
func hugePlan() []hugeSpec {
	if mon.Thorough() {
		return []hugeSpec{{"kit-to-ref", 1}, {"kit-to-ref", 2}, {"ref-to-kit", 1}, {"ref-to-kit", 2}}
	}
	return []hugeSpec{{"kit-to-ref", 1}}
}

type countReader struct {
	r io.Reader
	n int64
}

func (c *countReader) Read(p []byte) (int, error) {
	n, err := c.r.Read(p)
	c.n += int64(n)
	return n, err
}

func segClass(i int64) string {
	if i >= 65536 {
		return "segment>=65536"
	}
	return "segment<65536"
}

func runHuge(idx int, h hugeSpec) bool {
	start := time.Now()
	gen := refenc.NewGen(mon.Seed()*1000 + uint64(idx))
	v := newVault("huge", "huge-key")
	chk := gen.NewChecker()
	chk.Tick = rec.Progress
	replay := func(extra map[string]any) map[string]any {
		m := map[string]any{"case": h.String(), "plaintext": fmt.Sprintf("refenc.NewGen(%d).Reader(%d)", mon.Seed()*1000+uint64(idx), hugeSize),
			"key_wrapping": "A256KW through the case's vault", "received_bytes": chk.Total, "first_mismatch_offset": chk.Mismatch}
		for k, x := range extra {
			m[k] = x
		}
		return m
	}
	sigTail := "/" + cipherNames[h.cipher]
	buf := make([]byte, 256<<10)
	var streamErr error
	var wantCT int64 = -1
	var gotCT int64
	switch h.dir {
	case "kit-to-ref":
		ci := enc.CipherAESGCM
		if h.cipher == 2 {
			ci = enc.CipherChaCha20Poly1305
		}
		cb := &cbMon{v: v}
		er, err := callEncrypt(gen.Reader(hugeSize), enc.EncryptOptions{WrapKeyFn: cb.wrap, Algorithm: enc.KeyAlgorithmAES256KW, KeyName: "huge-key", Cipher: &ci})
		if err != nil {
			rec.Violation(idx, "huge/encrypt/returned-error", "Encrypt failed: "+err.Error(), replay(nil))
			return true
		}
		cnt := &countReader{r: er}
		dr, err := refenc.NewDecryptReader(cnt, func(w []byte, kw int, name string) ([]byte, error) { return v.unwrap(w, refenc.KWName(kw), name) })
		if err != nil {
			if c, ok := er.(io.Closer); ok {
				c.Close()
			}
			rec.Violation(idx, "huge/ref-decrypts-kit/"+refErrClass(err)+sigTail, "a spec-conforming streaming reader rejects the header of kit's ciphertext: "+err.Error(), replay(nil))
			return true
		}
		_, streamErr = io.CopyBuffer(struct{ io.Writer }{chk}, struct{ io.Reader }{dr}, buf)
		if c, ok := er.(io.Closer); ok {
			c.Close() // releases kit's goroutine if the reference reader stopped early
		}
		gotCT = cnt.n
		wantCT = int64(dr.HeaderLen()) + hugeSize + refenc.TagSize*hugeSegments
		if streamErr != nil {
			var se *refenc.SegmentError
			if errors.As(streamErr, &se) {
				rec.Violation(idx, "huge/ref-decrypts-kit/segment-auth/"+segClass(int64(se.Index))+sigTail,
					fmt.Sprintf("a spec-conforming reader cannot authenticate segment %d of kit's ciphertext (the %d segments before it were fine): %v", se.Index, se.Index, streamErr),
					replay(map[string]any{"failing_segment": se.Index}))
			} else {
				rec.Violation(idx, "huge/ref-decrypts-kit/"+refErrClass(streamErr)+sigTail, "streaming reference decryption of kit's ciphertext failed: "+streamErr.Error(), replay(nil))
			}
			return true
		}
		if dr.Segments() != hugeSegments {
			rec.Violation(idx, "huge/struct/segment-count"+sigTail, fmt.Sprintf("%d segments, expected %d", dr.Segments(), hugeSegments), replay(nil))
			return true
		}
	case "ref-to-kit":
		var wfk []byte
		src := refenc.NewEncryptReader(gen.Reader(hugeSize), refenc.EncryptOptions{KeyName: "huge-key", KW: refenc.KWA256KW, Cipher: cipherID(h.cipher),
			Wrap: func(fk []byte) ([]byte, error) {
				w, err := v.wrap(fk, "A256KW", "huge-key")
				wfk = w
				return w, err
			}})
		cb := &cbMon{v: v}
		dr, err := callDecrypt(src, enc.DecryptOptions{UnwrapKeyFn: cb.unwrap})
		_ = wfk
		if err != nil {
			rec.Violation(idx, "huge/kit-decrypts-ref/decrypt-error"+sigTail, "Decrypt rejected the header of a valid huge document: "+err.Error(), replay(nil))
			return true
		}
		_, streamErr = io.CopyBuffer(struct{ io.Writer }{chk}, struct{ io.Reader }{dr}, buf)
		if streamErr != nil {
			rec.Violation(idx, "huge/kit-decrypts-ref/stream-error/"+segClass(chk.Total/65536)+sigTail,
				fmt.Sprintf("the Decrypt stream of a valid document failed after %d bytes (segment %d): %v", chk.Total, chk.Total/65536, streamErr),
				replay(map[string]any{"failing_segment": chk.Total / 65536}))
			return true
		}
	}
	stage := map[string]string{"kit-to-ref": "ref-decrypts-kit", "ref-to-kit": "kit-decrypts-ref"}[h.dir]
	switch {
	case chk.Mismatch >= 0:
		rec.Violation(idx, "huge/"+stage+"/bytes-differ/"+segClass(chk.Mismatch/65536)+sigTail,
			fmt.Sprintf("decrypted bytes differ from the plaintext from offset %d (segment %d)", chk.Mismatch, chk.Mismatch/65536), replay(nil))
	case chk.Total != hugeSize:
		rec.Violation(idx, "huge/"+stage+"/length-differs"+sigTail, fmt.Sprintf("decrypted %d bytes, the plaintext has %d", chk.Total, hugeSize), replay(nil))
	case wantCT >= 0 && gotCT != wantCT:
		rec.Violation(idx, "huge/struct/payload-length"+sigTail, fmt.Sprintf("the ciphertext has %d bytes, expected header + plaintext + 16 per segment = %d", gotCT, wantCT), replay(nil))
	default:
		rec.Count("huge."+h.dir+".ok", 1)
		rec.Count("huge.segments_beyond_65535_authenticated", hugeSegments-65536)
		rec.Count("huge.seconds."+h.dir+"."+cipherNames[h.cipher], int(time.Since(start).Seconds()+0.5))
		if rec.WantSample() {
			rec.Sample(map[string]any{"case": h.String(), "seconds": time.Since(start).Seconds(), "ciphertext_bytes": gotCT})
		}
	}
	return true
}
