package c01

// "Source capabilities": Encrypt and Decrypt take an io.Reader, but real
// sources are more than that - files, pipes, section readers, readers that
// also implement io.Seeker / io.ReaderAt / io.WriterTo / io.ByteReader, or
// wrappers that have such methods without being able to honour them. Whatever
// a source additionally offers, the round trip must be exact. Each ordinary
// case decrypts its ciphertext once more through one of these sources and
// encrypts its plaintext once more through another one.

import (
	"bufio"
	"bytes"
	"errors"
	"fmt"
	"io"
	"os"
	"path/filepath"

	enc "github.com/dapr/kit/schemes/enc/v1"

	"verif/harness/internal/mon"
	"verif/harness/internal/refenc"
)

var capKinds = []string{
	"os.Pipe",                  // *os.File that has Seek/ReadAt methods but is a pipe: they fail at run time
	"file@0",                   // regular file, document at offset 0
	"file@offset",              // regular file, document embedded after other bytes; the handle is positioned at its start
	"SectionReader@base",       // io.SectionReader over a larger blob (Seek, ReadAt relative to a non-zero base)
	"erroring-Seek",            // has a Seek method that always fails
	"Seek-forwarding+counting", // forwards Seek to a bytes.Reader and counts the calls (observed only)
	"bufio+inconsistent-Seek",  // reads come from a bufio layer, Seek moves the file underneath: Seek says nothing about what Read returns next
	"bytes.Reader",             // Seek, ReadAt, WriteTo, ReadByte, UnreadByte, Len
	"ReadAt+WriteTo+ReadByte",  // those capabilities without Seek
}

func capKindsOf(idx int) (dec, encr int) { return idx % len(capKinds), (idx*4 + 3) % len(capKinds) }

var scratchDir string

func scratch() (string, error) {
	if scratchDir != "" {
		return scratchDir, nil
	}
	d := os.Getenv("VERIF_SCRATCH")
	if d == "" {
		d = filepath.Join(os.TempDir(), fmt.Sprintf("verif-c01-%d", os.Getpid()))
	}
	if err := os.MkdirAll(d, 0o755); err != nil {
		return "", err
	}
	scratchDir = d
	return d, nil
}

func removeScratch() {
	if scratchDir != "" {
		os.Remove(scratchDir) // only if empty: the files are removed right after use
	}
}

type errSeeker struct{ r io.Reader }

func (e errSeeker) Read(p []byte) (int, error) { return e.r.Read(p) }
func (e errSeeker) Seek(int64, int) (int64, error) {
	rec.Count("srccap.seek_calls_observed", 1)
	return 0, errors.New("harness: this source cannot seek")
}

type countingSeeker struct{ r *bytes.Reader }

func (c countingSeeker) Read(p []byte) (int, error) { return c.r.Read(p) }
func (c countingSeeker) Seek(o int64, w int) (int64, error) {
	rec.Count("srccap.seek_calls_observed", 1)
	return c.r.Seek(o, w)
}

// bufSeeker: Read is served by the bufio layer, Seek moves the file under it.
type bufSeeker struct {
	*bufio.Reader
	f io.Seeker
}

func (b bufSeeker) Seek(o int64, w int) (int64, error) {
	rec.Count("srccap.seek_calls_observed", 1)
	return b.f.Seek(o, w)
}

type capableNoSeek struct{ r *bytes.Reader }

func (c capableNoSeek) Read(p []byte) (int, error)            { return c.r.Read(p) }
func (c capableNoSeek) ReadAt(p []byte, o int64) (int, error) { return c.r.ReadAt(p, o) }
func (c capableNoSeek) WriteTo(w io.Writer) (int64, error)    { return c.r.WriteTo(w) }
func (c capableNoSeek) ReadByte() (byte, error)               { return c.r.ReadByte() }

// capSource builds a source of the given kind over data.
func capSource(kind int, data []byte, rng *mon.RNG) (io.Reader, func(), error) {
	tmpFile := func(prefix []byte) (*os.File, func(), error) {
		d, err := scratch()
		if err != nil {
			return nil, nil, err
		}
		f, err := os.CreateTemp(d, "c01-src-*")
		if err != nil {
			return nil, nil, err
		}
		cleanup := func() { f.Close(); os.Remove(f.Name()) }
		if _, err = f.Write(prefix); err == nil {
			_, err = f.Write(data)
		}
		if err == nil {
			_, err = f.Seek(int64(len(prefix)), io.SeekStart)
		}
		if err != nil {
			cleanup()
			return nil, nil, err
		}
		return f, cleanup, nil
	}
	switch capKinds[kind] {
	case "os.Pipe":
		r, w, err := os.Pipe()
		if err != nil {
			return nil, nil, err
		}
		chunk := rng.PickInt(1000, 70000, 1<<20)
		go func() {
			defer w.Close()
			for pos := 0; pos < len(data); pos += chunk {
				if _, err := w.Write(data[pos:min(pos+chunk, len(data))]); err != nil {
					return
				}
			}
		}()
		return r, func() { r.Close() }, nil
	case "file@0":
		return tmpFile(nil)
	case "file@offset":
		return tmpFile(rng.Bytes(rng.PickInt(1, 1000, 65536, 70001)))
	case "SectionReader@base":
		pre, post := rng.Bytes(rng.PickInt(1, 777, 65537)), rng.Bytes(rng.PickInt(0, 5, 70000))
		blob := append(append(append([]byte{}, pre...), data...), post...)
		return io.NewSectionReader(bytes.NewReader(blob), int64(len(pre)), int64(len(data))), func() {}, nil
	case "erroring-Seek":
		return errSeeker{bytes.NewReader(data)}, func() {}, nil
	case "Seek-forwarding+counting":
		return countingSeeker{bytes.NewReader(data)}, func() {}, nil
	case "bufio+inconsistent-Seek":
		f, cleanup, err := tmpFile(rng.Bytes(rng.PickInt(0, 100)))
		if err != nil {
			return nil, nil, err
		}
		return bufSeeker{bufio.NewReaderSize(f, rng.PickInt(512, 4096, 100000)), f}, cleanup, nil
	case "bytes.Reader":
		return bytes.NewReader(data), func() {}, nil
	default:
		return capableNoSeek{bytes.NewReader(data)}, func() {}, nil
	}
}

// capabilityRoundTrip: one more Decrypt of the case's ciphertext and one more
// Encrypt of its plaintext, each through a source with extra capabilities.
func capabilityRoundTrip(c *caseCtx, cb *cbMon, rng *mon.RNG, ct, pt []byte, algOpt enc.KeyAlgorithm) bool {
	kd, ke := capKindsOf(c.idx)
	keyName := c.names[0]
	unwrap := func(w []byte, a, n string, nonce, tag []byte) ([]byte, error) {
		if cb.owned {
			return cb.ownedUnwrap(w, a, n)
		}
		return cb.v.unwrap(w, a, n)
	}
	defer cb.verifyOwned(c, "capability-round-trip")
	tail := "/" + lenClass(len(pt)) + "/" + cipherNames[c.s.Cipher]

	// ---- Decrypt through a capable source
	name := capKinds[kd]
	src, cleanup, err := capSource(kd, ct, rng)
	if err != nil {
		rec.Inconclusive(c.idx, "cannot build the "+name+" source: "+err.Error(), c.s.String())
		return false
	}
	rec.Step("Decrypt from a " + name + " source")
	extra := map[string]any{"source_kind": name}
	dr, err := callDecrypt(src, enc.DecryptOptions{UnwrapKeyFn: unwrap, KeyName: keyName})
	var got []byte
	if err == nil {
		got, err = io.ReadAll(dr)
	}
	cleanup()
	switch {
	case err != nil:
		c.viol("srccap/decrypt/"+name+"/error"+tail, fmt.Sprintf("a valid document read from a %s source is not decrypted: %v (%d of %d bytes)", name, err, len(got), len(pt)), extra)
		return false
	case !bytes.Equal(got, pt):
		c.viol("srccap/decrypt/"+name+"/bytes-differ"+tail, fmt.Sprintf("a valid document read from a %s source decrypts to other bytes (%d bytes, plaintext %d, first difference at %d)", name, len(got), len(pt), firstDiff(got, pt)), extra)
		return false
	}
	rec.Count("srccap.decrypt."+name, 1)

	// ---- Encrypt from a capable source
	name = capKinds[ke]
	src, cleanup, err = capSource(ke, pt, rng)
	if err != nil {
		rec.Inconclusive(c.idx, "cannot build the "+name+" source: "+err.Error(), c.s.String())
		return false
	}
	rec.Step("Encrypt from a " + name + " source")
	extra = map[string]any{"source_kind": name}
	er, err := callEncrypt(src, enc.EncryptOptions{Algorithm: algOpt, KeyName: keyName,
		WrapKeyFn: func(fk []byte, a, n string, nonce []byte) ([]byte, []byte, error) {
			w, err := cb.v.wrap(fk, a, n)
			return w, nil, err
		}})
	var ct2 []byte
	if err == nil {
		ct2, err = io.ReadAll(er)
	}
	cleanup()
	if err != nil {
		c.viol("srccap/encrypt/"+name+"/error"+tail, fmt.Sprintf("Encrypt of a plaintext read from a %s source failed: %v", name, err), extra)
		return false
	}
	back, err := refenc.Decrypt(ct2, func(w []byte, kw int, n string) ([]byte, error) { return cb.v.unwrap(w, refenc.KWName(kw), keyName) })
	if err != nil || !bytes.Equal(back, pt) {
		c.viol("srccap/encrypt/"+name+"/"+errClassOrDiffer(err)+tail, fmt.Sprintf("what Encrypt produced from a %s source is not decrypted to the plaintext by the reference implementation: %v (%d bytes, plaintext %d)", name, err, len(back), len(pt)), extra)
		return false
	}
	rec.Count("srccap.encrypt."+name, 1)
	return true
}
