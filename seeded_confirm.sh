#!/bin/bash
# usage: seeded_confirm.sh <ID> <srcdir> [check-id...]
# Confirms a seeded defect delivered in <srcdir> (patch.diff, demo_test.go|demo/, meta.json) in a scratch worktree:
#  builds, existing suite still passes (stable_pass of BASELINE.json), demo fails with / passes without the change,
#  then runs our quick check(s) against the patched worktree. Writes <srcdir>/confirm.json. Never touches /repo.
ID=$1; SRC=$2; shift 2; CHECKS=${@:-$ID}
export GOFLAGS=-mod=mod GOPROXY=off GOSUMDB=off
W=/var/tmp/verif-seedconfirm-$$
git -C /repo worktree add -q --detach $W HEAD || exit 2
trap 'git -C /repo worktree remove --force $W >/dev/null 2>&1; rm -rf $W' EXIT
res() { echo "$1" >> $SRC/confirm.log; echo "$1"; }
: > $SRC/confirm.log
git -C $W apply $SRC/patch.diff || { res "patch does not apply to HEAD"; exit 1; }
(cd $W && go build ./...) || { res "does not build"; exit 1; }
res "build: ok"
# existing suite with the change
(cd $W && go test -json -vet=off -count=1 -timeout 25m ./... 2>/dev/null) > $W/.suite.json
python3 - $W/.suite.json >> $SRC/confirm.log <<'P'
import json,sys
res={}
for l in open(sys.argv[1]):
    try: e=json.loads(l)
    except Exception: continue
    if e.get("Test") and e.get("Action") in ("pass","fail","skip"): res[e["Package"]+"::"+e["Test"]]=e["Action"]
base=json.load(open("/root/.vp/BASELINE.json"))["stable_pass"]
bad=[t for t in base if res.get(t)!="pass"]
print("suite: %d of %d baseline tests pass with the change"%(len(base)-len(bad),len(base)))
for t in bad[:10]: print("  NOT PASSING:",t,res.get(t))
P
tail -3 $SRC/confirm.log | grep suite
# demo
demo=$(ls $SRC/demo_test.go 2>/dev/null)
if [ -n "$demo" ]; then
  place=$(grep -m1 -o 'place in: *[^ ]*' $demo | sed 's/place in: *//')
  [ -z "$place" ] && { res "demo has no 'place in:' header"; }
  cp $demo $W/$place/zz_seeded_demo_test.go
  cmd=$(python3 -c "import json;print(json.load(open('$SRC/meta.json')).get('demo_cmd',''))")
  run="go test -vet=off -count=1 -tags unit ./$place/"
  (cd $W && timeout 900 $run > $W/.demo_with.txt 2>&1); with=$?
  git -C $W apply -R $SRC/patch.diff
  (cd $W && timeout 900 $run > $W/.demo_without.txt 2>&1); without=$?
  git -C $W apply $SRC/patch.diff
  rm -f $W/$place/zz_seeded_demo_test.go
  res "demo with change: exit $with (expected != 0); without change: exit $without (expected 0)"
else
  res "no demo_test.go (program demo?)"
fi
for c in $CHECKS; do
  out=$(cd /verif && VERIF_REPO=$W ./check $c quick 2>&1 | grep -v '^KNOWN')
  if echo "$out" | grep -q '^VIOLATION'; then
    res "check $c quick: CAUGHT $(echo "$out" | grep -o 'sig=[^ ]*' | sort | uniq -c | sort -rn | head -4 | awk '{print $2"(x"$1")"}' | tr '\n' ' ')"
  else
    res "check $c quick: NOT caught: $(echo "$out" | tail -1 | cut -c1-200)"
  fi
  rm -rf /verif/.build/$c-quick-alt-*$(basename $W)*
done
