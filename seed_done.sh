#!/bin/bash
# usage: seed_done.sh <name> [extra-check-ids...]   e.g. seed_done.sh C08-2   (deliverables in /tmp/seeded/<name>)
name=$1; shift; id=${name%%-*}
cd "$(dirname "$(readlink -f "$0")")"
[ -f /tmp/seeded/$name/patch.diff ] || { echo "$name: no patch.diff"; exit 1; }
./seeded_confirm.sh $id /tmp/seeded/$name $id "$@" 2>&1 | tail -4 | sed "s/^/$name: /"
mkdir -p seeded/$name
cp /tmp/seeded/$name/patch.diff /tmp/seeded/$name/confirm.log seeded/$name/
cp /tmp/seeded/$name/demo_test.go seeded/$name/ 2>/dev/null
python3 - $name $id <<'P'
import json,sys
name,id=sys.argv[1:3]
try: m=json.load(open('/tmp/seeded/%s/meta.json'%name))
except Exception as e: m={"property":id,"summary":"(meta.json missing or invalid: %s)"%e}
log=open('/tmp/seeded/%s/confirm.log'%name).read().strip().splitlines()
m['origin']="written by a fresh sub-agent that saw only the property text (plus a one-line focus on which clause to aim at) and its own scratch worktree of /repo - nothing from /verif"
m['confirmed_by_us']={"ran":"/verif/seeded_confirm.sh (scratch worktree of /repo HEAD: apply patch, go build, full baseline suite vs BASELINE stable_pass, demonstration with and without the change, then ./check quick with VERIF_REPO pointing at the patched worktree)","log":log}
m['caught_by']=[l for l in log if l.startswith('check ')]
json.dump(m,open('/verif/seeded/%s/meta.json'%name,'w'),indent=1)
P
