#!/bin/sh
# Offline setup after a fresh restore: build the driver and warm the build cache
# (std with and without -race for go1.26.8, kit and its dependencies).
cd "$(dirname "$0")" || exit 2
export GOFLAGS=-mod=mod GOPROXY=off GOSUMDB=off GOTOOLCHAIN=local
mkdir -p bin .build evidence replays
cd harness || exit 2
go1.26.8 build -o ../bin/verifctl ./cmd/verifctl || exit 1
for id in $(cat READY); do
  d=$(echo "$id" | tr 'C' 'c')
  [ -f "$d/verif.json" ] || continue
  if grep -q '"race": *true' "$d/verif.json"; then
    go1.26.8 test -c -race -vet=off -tags verif,unit -o /dev/null "./$d" || exit 1
  else
    go1.26.8 test -c -vet=off -tags verif,unit -o /dev/null "./$d" || exit 1
  fi
done
echo setup ok
